"""C11 (event routing), C12 (step structure), C13 (statistics fold), C14 (registry):
kind, ordering and fold-shape rules over BPTK_Py/modeling."""
from __future__ import annotations

import ast
import os
from typing import Dict, List, Optional, Set, Tuple

from ..cfg import CFG, Flow, Node, build_cfg
from ..core import (seq, VERIF_ROOT, AnalysisError, FuncInfo, Index, Result, call_name, call_recv, const_str,
                    dotted, iter_calls, norm_stmt, src, walk_no_nested)
from ..util import const_int, is_row, params, row_aliases, single_assignments
from ..util import deref as _deref

MODEL = "BPTK_Py/modeling/model.py"
SCHED = "BPTK_Py/modeling/scheduler.py"
SIMSCHED = "BPTK_Py/modeling/simultaneousScheduler.py"
AGENT = "BPTK_Py/modeling/agent.py"
COLLECTOR = "BPTK_Py/modeling/dataCollector.py"
HYBRID = "BPTK_Py/scenariorunners/hybrid_runner.py"

# ---------------------------------------------------------------------------
# kind analysis: agent id vs list position
# ---------------------------------------------------------------------------

ID_ATTRS = {"id", "receiver_id", "sender_id", "agent_id"}
ID_SOURCES_CALLS = {"agent_ids", "random_agents"}


def _iter_kind(it: ast.AST, env: Dict[str, str]) -> Optional[str]:
    """Kind of the elements produced by iterating *it*."""
    if isinstance(it, ast.Call):
        n = call_name(it)
        if n == "range":
            return "pos"
        if n in ID_SOURCES_CALLS:
            return "id"
        if n in ("list", "tuple", "sorted", "reversed", "set") and it.args:
            return _iter_kind(it.args[0], env)
    if isinstance(it, ast.Subscript) and (dotted(it.value) or "").endswith("agent_type_map"):
        return "id"
    if isinstance(it, ast.Name):
        k = env.get(it.id)
        if k == "idlist":
            return "id"
        if it.id in ("agent_ids",):
            return "id"
    return None


def _expr_kind(e: ast.AST, env: Dict[str, str]) -> str:
    """'id', 'pos' or '?' for an index expression."""
    if isinstance(e, ast.Slice):
        return "pos"
    if isinstance(e, ast.Constant) and isinstance(e.value, int):
        return "pos"
    if isinstance(e, ast.UnaryOp) and isinstance(e.operand, ast.Constant):
        return "pos"
    if isinstance(e, ast.Attribute) and e.attr in ID_ATTRS:
        return "id"
    if isinstance(e, ast.Name):
        if e.id in env and env[e.id] in ("id", "pos"):
            return env[e.id]
        if e.id in ("agent_id", "receiver_id", "sender_id") or e.id.endswith("_id"):
            return "id"
        return "?"
    if isinstance(e, ast.Call):
        n = call_name(e)
        if n == "get_random_integer":
            return "pos"
        if n in ("len", "index"):
            return "pos"
        if n in ("int", "round") and e.args:
            return _expr_kind(e.args[0], env)
    if isinstance(e, ast.BinOp):
        l, r = _expr_kind(e.left, env), _expr_kind(e.right, env)
        if "id" in (l, r):
            return "id"
        if l == r == "pos":
            return "pos"
    if isinstance(e, ast.Subscript):
        # element of an id list (agent_type_map[t][i], ids[i]) is an id
        base = e.value
        if isinstance(base, ast.Subscript) and (dotted(base.value) or "").endswith("agent_type_map"):
            return "id"
        if isinstance(base, ast.Name) and env.get(base.id) == "idlist":
            return "id"
    return "?"


def _kind_env(fn: ast.AST) -> Dict[str, str]:
    """Flow-insensitive kinds of local names: 'id', 'pos', 'idlist'."""
    env: Dict[str, str] = {}
    for p in params(fn) if isinstance(fn, (ast.FunctionDef, ast.AsyncFunctionDef)) else []:
        if p in ("agent_id", "receiver_id", "sender_id"):
            env[p] = "id"
        if p in ("agent_ids",):
            env[p] = "idlist"
    for _ in range(3):
        for n in walk_no_nested(fn):
            if isinstance(n, ast.Assign) and len(n.targets) == 1 and isinstance(n.targets[0], ast.Name):
                t = n.targets[0].id
                v = n.value
                if isinstance(v, ast.Subscript) and (dotted(v.value) or "").endswith("agent_type_map"):
                    env[t] = "idlist"
                elif isinstance(v, ast.Call) and call_name(v) in ID_SOURCES_CALLS:
                    env[t] = "idlist"
                elif isinstance(v, ast.Name) and env.get(v.id) == "idlist":
                    env[t] = "idlist"
                else:
                    k = _expr_kind(v, env)
                    if k != "?":
                        env[t] = k
            elif isinstance(n, (ast.For, ast.comprehension)):
                tgt, it = n.target, n.iter
                if isinstance(it, ast.Call) and call_name(it) == "enumerate" and isinstance(tgt, ast.Tuple) and len(tgt.elts) == 2:
                    if isinstance(tgt.elts[0], ast.Name):
                        env[tgt.elts[0].id] = "pos"
                    continue
                if isinstance(tgt, ast.Name):
                    k = _iter_kind(it, env)
                    if k:
                        env[tgt.id] = k
    return env


def agent_subscripts(idx: Index, res: Result, prop: str, scope: str = "BPTK_Py/") -> int:
    """Kind rule on every ``<x>.agents[<index>]`` load in the package."""
    count = 0
    for fi in idx.all_funcs(scope):
        if fi.file.startswith("BPTK_Py/widgets"):
            continue
        env = None
        for n in walk_no_nested(fi.node):
            if isinstance(n, ast.Subscript) and isinstance(n.value, ast.Attribute) and n.value.attr == "agents":
                if env is None:
                    env = _kind_env(fi.node)
                count += 1
                k = _expr_kind(n.slice, env)
                if k == "?":
                    raise AnalysisError("cannot classify the index %r of %s at %s as agent id or list position"
                                        % (src(n.slice), src(n.value), fi.loc(n)))
                res.check("KIND", "%s: %s" % (fi.qual, src(n)), k == "pos", fi.loc(n), fi.qual, src(n),
                          "the agent list (creation-ordered, compacted on deletion) is indexed with an agent *id* "
                          "(%s): after any deletion ids and positions differ, so this addresses a different agent or "
                          "raises IndexError" % src(n.slice),
                          key="KIND/%s/agents[AgentId]" % fi.qual)
    return count


def _fixture_self_check(res: Result) -> None:
    """Zero-count rule: the positive fixture must match on every run."""
    p = os.path.join(VERIF_ROOT, "fixtures", "agents_by_id.py")
    with open(p) as fh:
        tree = ast.parse(fh.read())
    hits = 0
    for fn in [n for n in ast.walk(tree) if isinstance(n, ast.FunctionDef)]:
        env = _kind_env(fn)
        for n in walk_no_nested(fn):
            if isinstance(n, ast.Subscript) and isinstance(n.value, ast.Attribute) and n.value.attr == "agents":
                k = _expr_kind(n.slice, env)
                want = "id" if fn.name.startswith("bad_") else "pos"
                if k != want:
                    raise AnalysisError("kind classifier self-check failed on fixture %s: %s classified %s" % (fn.name, src(n), k))
                hits += 1
    if hits < 6:
        raise AnalysisError("kind classifier fixture matched only %d sites" % hits)
    res.ob("KIND", "positive fixture: %d id/position sites classified as expected" % hits, True, nontrivial=False)


# ---------------------------------------------------------------------------
# C14
# ---------------------------------------------------------------------------

def _nseq(node) -> int:
    """view-order position of a CFG node (0 for synthetic nodes)"""
    return seq(node.ast) if node.ast is not None else 0


def id_source_rules(idx: Index, res: Result, rule: str = "MONO") -> FuncInfo:
    """Shared by C14 and C11: agent ids are unique for the life of the model - next_agent_id is initialised once, only ever grows by one,
    is handed to the factory and incremented exactly once before the agent is appended.  Routing events by id relies on it."""
    # (2) monotone id source
    writes = []
    for fi in idx.all_funcs("BPTK_Py/"):
        for node in walk_no_nested(fi.node):
            tg = []
            if isinstance(node, ast.Assign):
                tg = node.targets
            elif isinstance(node, (ast.AugAssign, ast.AnnAssign)):
                tg = [node.target]
            for t in tg:
                if isinstance(t, ast.Attribute) and t.attr == "next_agent_id":
                    writes.append((fi, node))
    res.floor("writes to next_agent_id", len(writes), 2)
    for fi, node in writes:
        if fi.qual == "Model.__init__":
            ok = isinstance(node, ast.Assign) and const_int(node.value) is not None
            res.check(rule, "Model.__init__ initialises next_agent_id", ok, fi.loc(node), fi.qual, norm_stmt(node),
                      "next_agent_id is not initialised with an integer constant", key=rule + "/Model.__init__/init")
        else:
            ok = isinstance(node, ast.AugAssign) and isinstance(node.op, ast.Add) and const_int(node.value) == 1
            res.check(rule, "%s: %s" % (fi.qual, norm_stmt(node)), ok, fi.loc(node), fi.qual, norm_stmt(node),
                      "next_agent_id is written other than by '+= 1' outside the constructor: ids can be reused",
                      key="%s/%s/%s" % (rule, fi.qual, norm_stmt(node)))
    # create_agent: factory gets next_agent_id, then exactly one increment on every path to the append
    create = idx.func(MODEL, "Model.create_agent")
    fac = [c for c in iter_calls(create.node) if isinstance(_deref(create.node, c.func), ast.Subscript)
           and (dotted(_deref(create.node, c.func).value) or "").endswith("agent_factories")]
    ok = bool(fac) and all(c.args and dotted(_deref(create.node, c.args[0])) == "self.next_agent_id" for c in fac)
    res.check(rule, "create_agent hands next_agent_id to the factory", ok, create.loc(), create.qual,
              src(fac[0]) if fac else "", "the factory is not called with self.next_agent_id as the new agent's id",
              key=rule + "/Model.create_agent/factory-arg")
    cfg = build_cfg(create.node, create.qual)

    def tr(node: Node, fact, label):
        if node.kind == "stmt" and label != "exc":
            s = node.ast
            if isinstance(s, ast.AugAssign) and isinstance(s.target, ast.Attribute) and s.target.attr == "next_agent_id":
                fact = min(fact + 1, 2)
        return [fact]
    flow = Flow(cfg, [0], tr)
    # the id is used up as soon as it was handed out: nothing that can create another agent (the agent's own initialize(), a hook)
    # runs between the factory call and the increment - a re-entrant create_agent would hand the same id out again
    fac_ids = {id(c) for c in fac}

    def tr_gap(node: Node, fact, label):
        a_ = node.ast
        if node.kind in ("stmt", "test") and a_ is not None and label != "exc":
            if any(id(c) in fac_ids for c in iter_calls(a_)):
                return ["handed-out"]
            if isinstance(a_, ast.AugAssign) and isinstance(a_.target, ast.Attribute) and a_.target.attr == "next_agent_id":
                return ["counted"]
        return [fact]
    gflow = Flow(cfg, ["idle"], tr_gap)
    gap_calls = []
    for nd in cfg.stmt_nodes():
        if "handed-out" in gflow.at[nd.id] and nd.ast is not None and not any(id(c) in fac_ids for c in iter_calls(nd.ast)):
            for c in iter_calls(nd.ast):
                if call_name(c) not in ("isinstance", "format", "str", "type", "len", "log") and not (call_name(c) or "").endswith("Exception") \
                        and not isinstance(getattr(nd.ast, "exc", None), ast.Call):
                    gap_calls.append((nd, c))
    res.check(rule, "create_agent counts the id before anything else runs", not gap_calls, create.loc(gap_calls[0][1]) if gap_calls else create.loc(), create.qual,
              src(gap_calls[0][1]) if gap_calls else "factory(...) ; next_agent_id += 1",
              "create_agent calls %s after the factory received next_agent_id and before next_agent_id is incremented: an agent that creates another "
              "agent there (a team creating its members in initialize()) gets the same id" % (src(gap_calls[0][1]) if gap_calls else ""),
              key=rule + "/Model.create_agent/call-before-increment")
    for nd in cfg.stmt_nodes():
        if any(call_name(c) == "append" and (call_recv(c) or "").endswith(".agents") for c in iter_calls(nd.ast)):
            ok = flow.at[nd.id] == {1}
            res.check(rule, "exactly one id increment before the agent is appended", ok, create.loc(nd.ast), create.qual,
                      norm_stmt(nd.ast), "an agent can be appended after %s increments of next_agent_id" % sorted(flow.at[nd.id]),
                      key=rule + "/Model.create_agent/increments")

    return create


def check_c14(idx: Index, tier: str, res: Result) -> None:
    res.explanation = ("Static decision of the registry discipline in Model: (1) the agent list is never indexed by an agent "
                       "id, (2) next_agent_id only ever grows by one per created agent and is handed to the factory before it "
                       "grows, (3) every function that rebinds or mutates the agent list also updates the type map, clearing "
                       "functions clear both, (4) the id-keyed queries look agents up by comparing ids.")
    res.rules = ["KIND: AgentId vs ListPos at every <x>.agents[...] subscript", "MONO: writes to next_agent_id",
                 "COUPDATE: writers of agents vs writers of agent_type_map", "QUERY: shape of agent()/agent_count()/delete_agents()"]
    res.not_decided = ["agreement when a user's agent sets agent_type different from the factory key",
                       "results of random_agents (random choice)"]
    _fixture_self_check(res)
    mcls = idx.cls(MODEL, "Model")
    n = agent_subscripts(idx, res, "C14", MODEL)
    res.extra["agents_subscripts"] = n

    create = id_source_rules(idx, res)

    # (3) co-update
    nwriters = 0
    for name, defs in mcls.methods.items():
        fi = defs[-1]
        w_agents = w_map = False
        for node in walk_no_nested(fi.node):
            tg = []
            if isinstance(node, ast.Assign):
                tg = node.targets
            elif isinstance(node, ast.AugAssign):
                tg = [node.target]
            for t in tg:
                if dotted(t) == "self.agents" or (isinstance(t, ast.Subscript) and dotted(t.value) == "self.agents"):
                    w_agents = True
                if dotted(t) == "self.agent_type_map" or (isinstance(t, ast.Subscript) and dotted(t.value) == "self.agent_type_map"):
                    w_map = True
            if isinstance(node, ast.Call) and call_name(node) in ("append", "remove", "pop", "insert", "extend", "clear"):
                r = node.func.value if isinstance(node.func, ast.Attribute) else None
                if r is not None and dotted(r) == "self.agents":
                    w_agents = True
                if r is not None and (dotted(r) == "self.agent_type_map" or is_row(row_aliases(fi.node, "self.agent_type_map"), r, "self.agent_type_map")):
                    w_map = True
        if w_agents:
            nwriters += 1
            res.check("COUPDATE", "%s writes agents and agent_type_map together" % fi.qual, w_map, fi.loc(), fi.qual,
                      "self.agents / self.agent_type_map",
                      "%s changes the agent list but not the per-type id lists: the queries disagree afterwards" % fi.qual,
                      key="COUPDATE/%s/map-not-updated" % fi.qual)
    res.floor("writers of Model.agents", nwriters, 5)
    # every type owns its id list: the lists are appended to in place (create_agent), so one list installed under several types makes
    # every type report the agents of all of them
    nown = 0

    def fresh_list(e: ast.AST) -> bool:
        return isinstance(e, (ast.List, ast.ListComp)) or (isinstance(e, ast.Call) and call_name(e) in ("list", "sorted", "copy", "deepcopy"))

    def innermost_loop(fn: ast.AST, target: ast.AST):
        best = None
        for lp in ast.walk(fn):
            if isinstance(lp, (ast.For, ast.While)) and any(x is target for x in ast.walk(lp)):
                if best is None or any(x is lp for x in ast.walk(best)):
                    best = lp
        return best
    for fi in idx.all_funcs("BPTK_Py/modeling/"):
        for node in walk_no_nested(fi.node):
            if not isinstance(node, ast.Assign):
                continue
            for t in node.targets:
                v = node.value
                if isinstance(v, ast.Name):
                    # a named list: fresh if it is created (once) in the same loop iteration that installs it
                    defs = [a for a in walk_no_nested(fi.node) if isinstance(a, ast.Assign) and len(a.targets) == 1 and isinstance(a.targets[0], ast.Name)
                            and a.targets[0].id == v.id]
                    if len(defs) == 1 and fresh_list(defs[0].value) and innermost_loop(fi.node, defs[0]) is innermost_loop(fi.node, node):
                        v = defs[0].value
                if isinstance(t, ast.Subscript) and (dotted(t.value) or "").endswith(".agent_type_map"):
                    nown += 1
                    res.check("COUPDATE", "%s installs a fresh id list per type" % fi.qual, fresh_list(v), fi.loc(node), fi.qual, norm_stmt(node),
                              "%s installs %s as a type's id list; unless it is a new list for every type, appending an id under one type "
                              "shows up under the others" % (fi.qual, src(v)[:50]), key="COUPDATE/%s/shared-id-list" % fi.qual)
                elif (dotted(t) or "").endswith(".agent_type_map"):
                    nown += 1
                    ok = (isinstance(v, ast.Dict) and all(fresh_list(x) for x in v.values)) or (isinstance(v, ast.DictComp) and fresh_list(v.value)) \
                        or (isinstance(v, ast.Call) and call_name(v) in ("dict", "defaultdict") and not v.args[1:] and
                            all(isinstance(a, ast.Name) and a.id == "list" for a in v.args))
                    shared = isinstance(v, ast.Call) and call_name(v) == "fromkeys" and len(v.args) == 2
                    res.check("COUPDATE", "%s rebinds agent_type_map to a table of fresh lists" % fi.qual, ok, fi.loc(node), fi.qual, norm_stmt(node)[:100],
                              ("%s builds the table with %s: dict.fromkeys stores the *same* list object under every key, so an id appended for one "
                               "agent type appears in the id list (and the count) of every type" % (fi.qual, src(v)[:60])) if shared else
                              "%s rebinds agent_type_map to %s, not to a table of new lists" % (fi.qual, src(v)[:60]),
                              key="COUPDATE/%s/shared-id-list" % fi.qual)
    res.floor("id-list installations in agent_type_map", nown, 4)
    # any further table the model fills when an agent is created (an id -> agent index, a per-state list, ...) describes the same
    # population: wherever the population is replaced (self.agents rebound to a new list) that table is emptied or rebuilt as well
    mci = idx.cls(MODEL, "Model")
    crea = idx.func(MODEL, "Model.create_agent")
    derived: Set[str] = set()
    for n in ast.walk(crea.node):
        if isinstance(n, ast.Assign):
            for t in n.targets:
                if isinstance(t, ast.Subscript) and isinstance(t.value, ast.Attribute) and dotted(t.value.value) == "self":
                    derived.add(t.value.attr)
        if isinstance(n, ast.Call) and isinstance(n.func, ast.Attribute) and n.func.attr in ("append", "add", "setdefault"):
            b = n.func.value
            while isinstance(b, ast.Subscript):
                b = b.value
            if isinstance(b, ast.Attribute) and dotted(b.value) == "self":
                derived.add(b.attr)
    derived -= {"agents", "agent_type_map"}
    for name, defs in mci.methods.items():
        fi_ = defs[-1]
        rebinds = [n for n in walk_no_nested(fi_.node) if isinstance(n, ast.Assign) and any(dotted(t) == "self.agents" for t in n.targets)
                   and isinstance(n.value, (ast.List, ast.Call))]
        if not rebinds or name == "__init__":
            continue
        for d_ in sorted(derived):
            reset = [n for n in walk_no_nested(fi_.node) if (isinstance(n, ast.Assign) and any(dotted(t) == "self." + d_ for t in n.targets)) or
                     (isinstance(n, ast.Call) and isinstance(n.func, ast.Attribute) and n.func.attr == "clear" and dotted(n.func.value) == "self." + d_)]
            res.check("COUPDATE", "Model.%s resets %s together with the agent list" % (name, d_), bool(reset), fi_.loc(rebinds[0]), fi_.qual, norm_stmt(rebinds[0]),
                      "Model.%s replaces the agent list but leaves self.%s, which create_agent fills for every agent, as it was: lookups through it "
                      "still find the agents of the discarded population" % (name, d_), key="COUPDATE/Model.%s/%s-not-reset" % (name, d_))
      # init, register, reset/configure, delete (some written twice in the pinned tree)
    # create_agent appends agent.id under the factory key
    app = [c for c in iter_calls(create.node) if call_name(c) == "append" and is_row(row_aliases(create.node, "self.agent_type_map"), c.func.value, "self.agent_type_map")]

    def row_key(e):
        e = _deref(create.node, e)
        return src(e.slice) if isinstance(e, ast.Subscript) else None
    ok = bool(app) and all(isinstance(c.args[0], ast.Attribute) and c.args[0].attr == "id" and row_key(c.func.value) == "agent_type" for c in app)
    res.check("COUPDATE", "create_agent records agent.id under its type", ok, create.loc(), create.qual,
              src(app[0]) if app else "", "create_agent does not append the new agent's id to agent_type_map[agent_type]",
              key="COUPDATE/Model.create_agent/append")
    # delete_agents keeps agents whose id is not listed and rebuilds from the filtered list
    dele = idx.func(MODEL, "Model.delete_agents")
    tests = [n for n in walk_no_nested(dele.node) if isinstance(n, ast.Compare) and len(n.ops) == 1
             and isinstance(n.ops[0], (ast.NotIn, ast.In)) and isinstance(n.left, ast.Attribute) and n.left.attr == "id"]
    res.check("QUERY", "delete_agents filters by agent.id membership", bool(tests), dele.loc(), dele.qual,
              src(tests[0]) if tests else "", "delete_agents does not select agents by id membership",
              key="QUERY/Model.delete_agents/filter")
    installs = [n for n in walk_no_nested(dele.node) if isinstance(n, ast.Assign) and isinstance(n.targets[0], ast.Subscript)
                and dotted(n.targets[0].value) == "self.agent_type_map"]
    installed_names = {n.value.id for n in installs if isinstance(n.value, ast.Name)}
    _rows = row_aliases(dele.node, "self.agent_type_map")
    rebuild = [c for c in iter_calls(dele.node) if call_name(c) == "append" and (
        (isinstance(c.func.value, ast.Subscript) and dotted(c.func.value.value) == "self.agent_type_map") or
        (isinstance(c.func.value, ast.Name) and c.func.value.id in installed_names) or
        is_row(_rows, c.func.value, "self.agent_type_map"))]
    comps = [n.value for n in installs if isinstance(n.value, ast.ListComp)]
    ok = (bool(rebuild) or bool(comps)) and all(isinstance(c.args[0], ast.Attribute) and c.args[0].attr == "id" for c in rebuild) \
        and all(isinstance(c.elt, ast.Attribute) and c.elt.attr == "id" for c in comps)
    res.check("QUERY", "delete_agents rebuilds the id lists from agent.id", ok, dele.loc(), dele.qual,
              src(rebuild[0]) if rebuild else (src(comps[0])[:80] if comps else ""), "delete_agents does not rebuild the per-type id lists from the surviving agents' ids",
              key="QUERY/Model.delete_agents/rebuild")
    model_agent_lookup_rule(idx, res, "QUERY")
    cnt = idx.func(MODEL, "Model.agent_count")
    rets = [n for n in walk_no_nested(cnt.node) if isinstance(n, ast.Return)]
    ids = idx.func(MODEL, "Model.agent_ids")
    ids_ok = any(isinstance(n, ast.Return) and src(n.value) == "self.agent_type_map[agent_type]" for n in walk_no_nested(ids.node))
    ok = len(rets) == 1 and isinstance(rets[0].value, ast.Call) and call_name(rets[0].value) == "len" \
        and ("agent_type_map[agent_type]" in src(rets[0].value) or (ids_ok and src(rets[0].value.args[0]) == "self.agent_ids(agent_type)"))
    res.check("QUERY", "agent_count = len(agent_type_map[type])", ok, cnt.loc(), cnt.qual, norm_stmt(rets[0]) if rets else "",
              "agent_count is not the length of the per-type id list", key="QUERY/Model.agent_count/shape")
    # agent_count_per_state counts once per id of the type whose state matches
    cps = idx.func(MODEL, "Model.agent_count_per_state")
    loops = [n for n in walk_no_nested(cps.node) if isinstance(n, ast.For)]
    ok = False
    for lp in loops:
        env = _kind_env(cps.node)
        if _iter_kind(lp.iter, env) == "id" or (isinstance(lp.iter, ast.Attribute) and lp.iter.attr == "agents"):
            incs = [n for n in ast.walk(lp) if isinstance(n, ast.AugAssign) and isinstance(n.op, ast.Add) and const_int(n.value) == 1]
            st = [n for n in ast.walk(lp) if isinstance(n, ast.Compare) and "state" in src(n)]
            ok = len(incs) == 1 and bool(st)
    if not ok:
        # sum(1 for id in ids if self.agent(id).state == state)  /  len([... for ... if ...])
        env = _kind_env(cps.node)
        for c in iter_calls(cps.node):
            if call_name(c) in ("sum", "len") and c.args and isinstance(c.args[0], (ast.GeneratorExp, ast.ListComp)) and len(c.args[0].generators) == 1:
                g = c.args[0].generators[0]
                it = _deref(cps.node, g.iter)
                over = _iter_kind(g.iter, env) == "id" or _iter_kind(it, env) == "id" or (isinstance(it, ast.Attribute) and it.attr == "agents") \
                    or (isinstance(it, ast.Subscript) and (dotted(it.value) or "").endswith("agent_type_map"))
                once = call_name(c) == "len" or const_int(c.args[0].elt) == 1
                if over and once and any("state" in src(i) for i in g.ifs):
                    ok = True
    res.check("QUERY", "agent_count_per_state counts matching agents once", ok, cps.loc(), cps.qual, "for ... += 1",
              "agent_count_per_state does not count one per agent of the type in the state", key="QUERY/Model.agent_count_per_state/shape")


# ---------------------------------------------------------------------------
# C11
# ---------------------------------------------------------------------------

def _pop_kind(c: ast.Call) -> Optional[str]:
    """'lifo' for x.pop() / x.pop(-1), 'fifo' for x.pop(0)."""
    if call_name(c) != "pop" or not isinstance(c.func, ast.Attribute):
        return None
    if not c.args:
        return "lifo"
    k = c.args[0]
    if const_int(k) == 0:
        return "fifo"
    if isinstance(k, ast.UnaryOp) and isinstance(k.op, ast.USub) and const_int(k.operand) == 1:
        return "lifo"
    return "?"


def _consume_kinds(fi: FuncInfo, queue_attr: str, recv_suffix: str) -> List[Tuple[str, ast.AST]]:
    """How *fi* takes elements out of <recv>.<queue_attr>: pops and for-iterations."""
    out = []
    for n in walk_no_nested(fi.node):
        if isinstance(n, ast.Call):
            k = _pop_kind(n)
            if k and (dotted(n.func.value) or "").endswith(recv_suffix + queue_attr):
                out.append((k, n))
        if isinstance(n, ast.For):
            it = n.iter
            if isinstance(it, ast.Call) and call_name(it) in ("list", "tuple") and it.args:
                it = it.args[0]
            if isinstance(it, ast.Call) and call_name(it) == "reversed" and it.args and \
                    (dotted(it.args[0]) or "").endswith(recv_suffix + queue_attr):
                out.append(("lifo", n))
            elif (dotted(it) or "").endswith(recv_suffix + queue_attr):
                out.append(("fifo", n))
    return out


def _push_kinds(fi: FuncInfo, queue_attr: str) -> List[Tuple[str, ast.AST]]:
    out = []
    for n in walk_no_nested(fi.node):
        if isinstance(n, ast.Call) and isinstance(n.func, ast.Attribute) and (dotted(n.func.value) or "").endswith("." + queue_attr):
            if n.func.attr in ("append", "extend"):
                out.append(("tail", n))
            elif n.func.attr == "insert":
                out.append(("head" if n.args and const_int(n.args[0]) == 0 else "?", n))
        if isinstance(n, ast.AugAssign) and isinstance(n.op, ast.Add) and (dotted(n.target) or "").endswith("." + queue_attr):
            out.append(("tail", n))
    return out


def check_c11(idx: Index, tier: str, res: Result) -> None:
    res.explanation = ("Static decision of the event pipeline's structure: (1) delivery addresses the receiver by id, never by "
                       "list position; (2) the number of order-reversing stages (tail push + tail pop) between enqueue_event "
                       "and the handler is even, and the delayed-event cycle contributes an even number; (3) each popped "
                       "event is delivered xor parked, parked events are re-enqueued after the agent loop and the park list "
                       "is reset; (4) handle_events empties the inbox on every normal exit; (5) distribution precedes the "
                       "agent loop.")
    res.rules = ["UNIQUE: ids are never reissued (writes to next_agent_id)", "KIND: id vs position at the delivery site", "PARITY: LIFO/FIFO stages of the three queues",
                 "ONCE: delivered xor parked on the CFG of the distribution loop and of handle_delayed_event",
                 "DRAIN: must-pass-through the loop exit in Agent.handle_events"]
    res.not_decided = ["ceil(delay/dt) under the float countdown of DelayedEvent.delay (runtime arithmetic)",
                       "what user handlers do with an event"]
    _fixture_self_check(res)
    # (0) an id names one agent for the life of the model (routing by id delivers to "the agent that has that id and no other")
    id_source_rules(idx, res, "UNIQUE")
    run_step = idx.func(SIMSCHED, "SimultaneousScheduler.run_step")
    # every agent with due events handles them in this step: the loop over the live agent list is not shifted under the iterator
    _mp = params(run_step.node)[1]
    _al = [n for n in run_step.node.body if isinstance(n, ast.For) and (dotted(n.iter.args[0] if isinstance(n.iter, ast.Call) and n.iter.args else n.iter) or "") == "%s.agents" % _mp]
    if len(_al) == 1:
        agents_list_not_edited_in_place(idx, res, "ONCE", _al[0])
    hde = idx.func(SCHED, "Scheduler.handle_delayed_event")
    enq = idx.func(MODEL, "Model.enqueue_event")
    recv = idx.func(AGENT, "Agent.receive_event")
    hev = idx.func(AGENT, "Agent.handle_events")

    # (1) delivery site
    deliver = [c for c in iter_calls(run_step.node) if call_name(c) == "receive_event"]
    if not deliver:
        raise AnalysisError("anchor vanished: receive_event call in SimultaneousScheduler.run_step")
    env = _kind_env(run_step.node)
    for c in deliver:
        target = c.func.value
        # resolve a local alias:  receiver = model.agent(event.receiver_id)
        assigns = single_assignments(run_step.node)
        exprs = [target]
        if isinstance(target, ast.Name) and target.id in assigns:
            exprs = assigns[target.id]
        for t in exprs:
            if isinstance(t, ast.Subscript) and isinstance(t.value, ast.Attribute) and t.value.attr == "agents":
                k = _expr_kind(t.slice, env)
                res.check("KIND", "delivery target %s" % src(t), k == "pos", run_step.loc(c), run_step.qual, src(c),
                          "events are delivered to model.agents[<agent id>]: after a deletion the event for id k is handled by "
                          "the agent at position k (a different agent) or raises IndexError",
                          key="KIND/SimultaneousScheduler.run_step/agents[AgentId]")
            elif isinstance(t, ast.Call) and call_name(t) == "agent" and t.args:
                k = _expr_kind(t.args[0], env)
                okk = k == "id" and "receiver_id" in src(t.args[0])
                model_agent_lookup_rule(idx, res, "KIND")         # the delivery is as good as the look-up it goes through
                res.check("KIND", "delivery target %s" % src(t), okk, run_step.loc(c), run_step.qual, src(c),
                          "the receiver is looked up with %s, which is not the event's receiver id" % src(t.args[0]),
                          key="KIND/SimultaneousScheduler.run_step/lookup-arg")
                # None (dead id) must be filtered before the call
                guarded = _guarded_not_none(run_step.node, c, target)
                res.check("KIND", "dead receiver filtered", guarded, run_step.loc(c), run_step.qual, src(c),
                          "Model.agent() answers None for an id that no longer exists; the delivery dereferences it unguarded",
                          key="KIND/SimultaneousScheduler.run_step/none-receiver")
            elif isinstance(t, (ast.Call, ast.Subscript)) and _id_index_of(t, assigns) is not None:
                # lookup in an {agent.id: agent} index built from the agent list
                key = _id_index_of(t, assigns)
                # ... in this step: an index handed in by the caller was built at another moment (once per round, once per run) and misses
                # the agents created since
                tb_ = t.func.value if isinstance(t, ast.Call) else t.value
                if isinstance(tb_, ast.Name) and tb_.id in params(run_step.node):
                    pos_ = params(run_step.node).index(tb_.id)
                    handed = []
                    for f_ in list(idx.all_funcs("BPTK_Py/modeling/")):
                        for c_ in iter_calls(f_.node):
                            if call_name(c_) == "run_step" and (any(k.arg == tb_.id and not (isinstance(k.value, ast.Constant) and k.value.value is None) for k in c_.keywords)
                                                                or len(c_.args) >= pos_):
                                handed.append((f_, c_))
                    res.check("KIND", "the delivery index is built in the step that uses it", not handed, handed[0][0].loc(handed[0][1]) if handed else run_step.loc(), run_step.qual,
                              src(handed[0][1])[:100] if handed else tb_.id,
                              "run_step delivers through the index its caller hands in (%s builds it %s): agents created by an earlier step of the same "
                              "round are not in it, events sent to them are dropped" % (handed[0][0].qual if handed else "", "outside the step loop" if handed else ""),
                              key="KIND/SimultaneousScheduler.run_step/index-from-caller")
                k = _expr_kind(key, env)
                okk = k == "id" and "receiver_id" in src(key)
                res.check("KIND", "delivery target %s" % src(t), okk, run_step.loc(c), run_step.qual, src(c),
                          "the receiver is looked up with %s, which is not the event's receiver id" % src(key),
                          key="KIND/SimultaneousScheduler.run_step/lookup-arg")
                guarded = isinstance(t, ast.Call) and _guarded_not_none(run_step.node, c, target)
                res.check("KIND", "dead receiver filtered", guarded, run_step.loc(c), run_step.qual, src(c),
                          "an id that no longer exists is not filtered before the delivery dereferences the lookup result",
                          key="KIND/SimultaneousScheduler.run_step/none-receiver")
            elif isinstance(t, (ast.Call, ast.Subscript)) and _cached_index_base(t, assigns) is not None:
                base = _cached_index_base(t, assigns)
                res.check("KIND", "delivery target %s is looked up in an index built for this distribution" % src(t), False, run_step.loc(c),
                          run_step.qual, src(t),
                          "the receiver is looked up in %s, an index kept on an object across steps instead of being built from "
                          "model.agents for this distribution: after agents are deleted and created (same count, different ids) the index "
                          "is stale - an event reaches a deleted agent's object or is dropped although its receiver exists" % base,
                          key="KIND/SimultaneousScheduler.run_step/cached-index=%s" % base)
            else:
                raise AnalysisError("unrecognised delivery target %r" % src(t))
    for f in (SCHED, SIMSCHED, AGENT):
        agent_subscripts(idx, res, "C11", f)

    # (2) parity of reversing stages
    q_model_push = _push_kinds(enq, "events")
    q_model_pop = _consume_kinds(run_step, "events", "model.")
    q_inbox_push = _push_kinds(recv, "events")
    q_inbox_pop = _consume_kinds(hev, "events", "self.")
    for nm, lst in (("enqueue_event push", q_model_push), ("distribution pop", q_model_pop),
                    ("receive_event push", q_inbox_push), ("handle_events pop", q_inbox_pop)):
        if len(lst) != 1 or lst[0][0] == "?":
            raise AnalysisError("queue stage '%s': expected exactly one recognised operation, found %s"
                                % (nm, [(k, src(n)[:40]) for k, n in lst]))

    def reversing(push, pop) -> int:
        # tail push + lifo pop reverses; tail+fifo and head+lifo keep the order
        return 1 if (push == "tail") == (pop == "lifo") else 0
    r1 = reversing(q_model_push[0][0], q_model_pop[0][0])
    r2 = reversing(q_inbox_push[0][0], q_inbox_pop[0][0])
    res.samples.append({"stages": {"model.events": [q_model_push[0][0], q_model_pop[0][0]],
                                   "agent.events": [q_inbox_push[0][0], q_inbox_pop[0][0]]}})
    res.check("PARITY", "direct path enqueue->handler reversals=%d" % (r1 + r2), (r1 + r2) % 2 == 0, run_step.loc(q_model_pop[0][1]),
              run_step.qual, "%s ; %s" % (src(q_model_pop[0][1])[:60], src(q_inbox_pop[0][1])[:60]),
              "events sent to one agent in one step pass %d order-reversing stages: they are handled in reverse order of sending"
              % (r1 + r2), key="PARITY/direct-path/reversals=%d" % (r1 + r2))
    # delayed loop: model.events --pop--> handle_delayed_event --push--> delayed_events --bulk--> model.events
    park_push = _push_kinds(hde, "delayed_events")
    if len(park_push) != 1:
        raise AnalysisError("expected one park operation in handle_delayed_event")
    back = [n for n in walk_no_nested(run_step.node) if isinstance(n, ast.AugAssign) and isinstance(n.op, ast.Add)
            and dotted(n.target) == "model.events"] + \
           [n for n in iter_calls(run_step.node) if call_name(n) == "extend" and dotted(n.func.value) == "model.events"]
    if len(back) != 1:
        raise AnalysisError("expected exactly one re-enqueue of the parked events in run_step, found %d" % len(back))
    bsrc = back[0].value if isinstance(back[0], ast.AugAssign) else back[0].args[0]
    rev_back = isinstance(bsrc, ast.Call) and call_name(bsrc) == "reversed" or (
        isinstance(bsrc, ast.Subscript) and src(bsrc.slice) == "::-1")
    if not (("delayed_events" in src(bsrc))):
        raise AnalysisError("re-enqueue source %r is not the park list" % src(bsrc))
    # insertion at the head of model.events would also change parity; only tail re-enqueue is recognised
    rcycle = reversing(park_push[0][0], "fifo") + (1 if rev_back else 0) + (1 if q_model_pop[0][0] == "lifo" else 0)
    res.check("PARITY", "delayed cycle reversals=%d" % rcycle, rcycle % 2 == 0, run_step.loc(back[0]), run_step.qual,
              "%s ... %s" % (src(q_model_pop[0][1])[:50], norm_stmt(back[0])),
              "each pass of a still-delayed event through the park list reverses the relative order of the parked events "
              "(tail pop, tail push, bulk re-enqueue): two events sent in order with equal delay arrive in reverse order "
              "whenever they are parked an odd number of times", key="PARITY/delayed-loop/reversals=%d" % rcycle)

    # (3) delivered xor parked
    cfg = build_cfg(hde.node, hde.qual)
    ev_param = params(hde.node)[1]

    def tr(node: Node, fact, label):
        if node.kind == "stmt" and label != "exc":
            if any(k == "tail" for k, n in park_push if n is node.ast or n in list(ast.walk(node.ast))):
                fact = True
        return [fact]
    flow = Flow(cfg, [False], tr)
    nret = 0
    for nd in cfg.stmt_nodes():
        if isinstance(nd.ast, ast.Return):
            nret += 1
            v = nd.ast.value
            returns_none = v is None or (isinstance(v, ast.Constant) and v.value is None)
            returns_event = isinstance(v, ast.Name) and v.id == ev_param
            for parked in flow.at[nd.id]:
                ok = (parked and returns_none) or ((not parked) and returns_event)
                res.check("ONCE", "handle_delayed_event: parked=%s -> %s" % (parked, norm_stmt(nd.ast)), ok, hde.loc(nd.ast),
                          hde.qual, norm_stmt(nd.ast),
                          "handle_delayed_event %s: the event would be %s" % (
                              "parks the event and returns it" if parked else "neither parks nor returns the event",
                              "delivered now and again later" if parked else "lost"),
                          key="ONCE/Scheduler.handle_delayed_event/parked=%s/%s" % (parked, norm_stmt(nd.ast)))
    res.floor("returns in handle_delayed_event", nret, 2)
    # countdown: delay decreases by dt when parked, parked iff delay > 0
    dec = [n for n in walk_no_nested(hde.node) if isinstance(n, ast.AugAssign) and isinstance(n.op, ast.Sub)
           and src(n.target).endswith(".delay") and src(n.value) == params(hde.node)[2]]
    res.check("ONCE", "countdown subtracts dt per step", len(dec) == 1, hde.loc(), hde.qual, norm_stmt(dec[0]) if dec else "",
              "the delay countdown does not subtract dt exactly once per park", key="ONCE/Scheduler.handle_delayed_event/countdown")
    gt = [n for n in walk_no_nested(hde.node) if isinstance(n, ast.Compare) and src(n.left).endswith(".delay")
          and len(n.ops) == 1 and isinstance(n.ops[0], ast.Gt) and const_int(n.comparators[0]) == 0]
    res.check("ONCE", "parked iff delay > 0", len(gt) == 1, hde.loc(), hde.qual, src(gt[0]) if gt else "",
              "the park test is not 'delay > 0'", key="ONCE/Scheduler.handle_delayed_event/test")

    # distribution loop: deliver only under `if event:`; popped value flows into handle_delayed_event only
    loops = [n for n in walk_no_nested(run_step.node) if isinstance(n, ast.While) and "model.events" in src(n.test)]
    if len(loops) != 1:
        raise AnalysisError("anchor vanished: distribution loop over model.events")
    lp = loops[0]
    hcalls = [c for c in iter_calls(lp) if call_name(c) == "handle_delayed_event"]
    ok = len(hcalls) == 1 and any(c is q_model_pop[0][1] for c in ast.walk(hcalls[0]))
    res.check("ONCE", "popped event goes through handle_delayed_event", ok, run_step.loc(lp), run_step.qual, src(hcalls[0]) if hcalls else "",
              "the popped event does not flow into handle_delayed_event exactly once", key="ONCE/run_step/pop-flow")
    for c in deliver:
        evnames = {t.id for n in ast.walk(lp) if isinstance(n, ast.Assign) and n.value in hcalls
                   for t in n.targets if isinstance(t, ast.Name)}
        guards = [g for g in ast.walk(lp) if isinstance(g, ast.If) and any(t is c for b in g.body for t in ast.walk(b))]
        okg = any((isinstance(g.test, ast.Name) and g.test.id in evnames)
                  or (isinstance(g.test, ast.Compare) and isinstance(g.test.left, ast.Name) and g.test.left.id in evnames
                      and isinstance(g.test.ops[0], ast.IsNot)) for g in guards)
        if not okg:
            from ..util import truthy_at
            okg = any(truthy_at(run_step.node, run_step.qual, c, ev) for ev in evnames)      # guard clauses: if not event: continue
        res.check("ONCE", "delivery guarded by the returned event", okg, run_step.loc(c), run_step.qual, src(c),
                  "delivery is not conditional on handle_delayed_event having returned the event (a parked event would be delivered too)",
                  key="ONCE/run_step/delivery-guard")
    # re-enqueue after the agent loop, park list reset after re-enqueue
    body = run_step.node.body
    pos = {id(s): i for i, s in enumerate(body)}
    agent_loop = [s for s in body if isinstance(s, ast.For) and (dotted(s.iter) or "").endswith(".agents")]
    if len(agent_loop) != 1:
        raise AnalysisError("anchor vanished: agent loop in run_step")
    back_stmt = [s for s in body if back[0] is s or back[0] in list(ast.walk(s))]
    reset = [s for s in body if isinstance(s, ast.Assign) and dotted(s.targets[0]) == "self.delayed_events"
             and isinstance(s.value, ast.List) and not s.value.elts]
    ok = bool(back_stmt) and pos[id(back_stmt[0])] > pos[id(agent_loop[0])] and pos[id(back_stmt[0])] > pos[id(lp)]
    res.check("ONCE", "parked events re-enqueued after the agent loop", ok, run_step.loc(back[0]), run_step.qual, norm_stmt(back[0]),
              "parked events are put back before the agents act: events sent during this step would overtake them / be "
              "distributed in the same step", key="ONCE/run_step/re-enqueue-position")
    ok = bool(reset) and bool(back_stmt) and pos[id(reset[0])] > pos[id(back_stmt[0])]
    res.check("ONCE", "park list reset after re-enqueue", ok, run_step.loc(), run_step.qual, norm_stmt(reset[0]) if reset else "",
              "the park list is not emptied after being re-enqueued: parked events are duplicated every step",
              key="ONCE/run_step/park-reset")
    # (5) distribution precedes the agent loop
    res.check("ONCE", "distribution precedes the agent loop", pos[id(lp)] < pos[id(agent_loop[0])], run_step.loc(lp), run_step.qual,
              "while len(model.events) > 0", "events are distributed after the agents acted: an event sent in step k is handled in k+2",
              key="ONCE/run_step/distribution-position")

    # (4) drain
    cfg = build_cfg(hev.node, hev.qual)
    drains = set()
    for nd in cfg.nodes:
        # while len(self.events) > 0: / while self.events:  - the false edge is "the inbox is empty"
        if nd.kind == "test" and "self.events" in src(nd.ast) and (isinstance(nd.ast, ast.Compare) or dotted(nd.ast) == "self.events"
                                                                  or (isinstance(nd.ast, ast.Call) and call_name(nd.ast) == "len")):
            if not (isinstance(nd.ast, ast.Compare) and isinstance(nd.ast.ops[0], (ast.Eq, ast.LtE, ast.Lt, ast.Is, ast.In, ast.NotIn))):
                drains.add(nd.id)

    from ..util import implied as _implied

    def _inbox_empty(atom, truth) -> bool:
        """(atom, truth) says: the inbox is empty"""
        if isinstance(atom, ast.Compare) and len(atom.ops) == 1 and isinstance(atom.left, ast.Call) and call_name(atom.left) == "len" \
                and atom.left.args and dotted(atom.left.args[0]) == "self.events" and const_int(atom.comparators[0]) == 0:
            return (isinstance(atom.ops[0], (ast.Gt, ast.NotEq)) and not truth) or (isinstance(atom.ops[0], (ast.Eq, ast.LtE)) and truth)
        if dotted(atom) == "self.events" or (isinstance(atom, ast.Call) and call_name(atom) == "len" and atom.args and dotted(atom.args[0]) == "self.events"):
            return not truth
        return False
    edge_drains = {}
    for nd in cfg.nodes:
        if nd.kind == "test" and nd.ast is not None and "self.events" in src(nd.ast):
            for lab in ("true", "false"):
                try:
                    if any(_inbox_empty(a_, t_) for a_, t_ in _implied(nd.ast, lab == "true")):
                        edge_drains[(nd.id, lab)] = True
                except Exception:
                    pass
    if edge_drains:
        drains |= {k[0] for k in edge_drains}

    def trd(node: Node, fact, label):
        if (node.id, label) in edge_drains:
            fact = True
        if node.id in drains and label == "false" and not any(k[0] == node.id for k in edge_drains):
            fact = True
        if node.kind == "stmt" and label != "exc":
            s = node.ast
            if isinstance(s, ast.Assign) and dotted(s.targets[0]) == "self.events" and isinstance(s.value, ast.List) and not s.value.elts:
                fact = True
            if any(call_name(c) == "clear" and dotted(c.func.value) == "self.events" for c in iter_calls(s)):
                fact = True
        if node.kind == "iter" and label == "done" and "self.events" in src(node.ast.iter):
            fact = "iterated"
        return [fact]
    flow = Flow(cfg, [False], trd)
    if not drains and not any(n.kind == "iter" for n in cfg.nodes):
        raise AnalysisError("anchor vanished: inbox loop in Agent.handle_events")
    reach = flow.at[cfg.exit]
    ok = False not in reach and "iterated" not in reach
    res.check("DRAIN", "Agent.handle_events empties the inbox on every normal exit", ok, hev.loc(), hev.qual,
              "handlers = self.eventHandlers[self.state]",
              "when the agent's current state has no handler table the KeyError is swallowed before the loop: the inbox is "
              "kept and its events are handled steps later (or never); path: %s"
              % (" ".join(flow.witness(cfg.exit, False)) if False in reach else "for-loop without clearing"),
              key="DRAIN/Agent.handle_events/inbox-kept")
    # one event without a handler does not end the draining: the construct that swallows the KeyError of looking up / running an event's
    # handler lies *inside* the draining loop (the loop goes on with the next event), not around it (the rest of the inbox stays)
    par: Dict[int, ast.AST] = {}
    for p_ in ast.walk(hev.node):
        for c_ in ast.iter_child_nodes(p_):
            par[id(c_)] = p_
    dloops = [x for x in walk_no_nested(hev.node) if isinstance(x, (ast.While, ast.For)) and "self.events" in src(x.test if isinstance(x, ast.While) else x.iter)]

    def swallows_keyerror(c_) -> bool:
        if isinstance(c_, ast.With):
            return any(isinstance(i_.context_expr, ast.Call) and call_name(i_.context_expr) == "suppress" and
                       any(src(a_) in ("KeyError", "LookupError", "Exception", "BaseException") for a_ in i_.context_expr.args) for i_ in c_.items)
        if isinstance(c_, ast.Try):
            return any((h.type is None or any(isinstance(x, ast.Name) and x.id in ("KeyError", "LookupError", "Exception", "BaseException") for x in ast.walk(h.type)))
                       and not any(isinstance(x, ast.Raise) for x in ast.walk(h)) for h in c_.handlers)
        return False
    nhandled = 0
    for lp in dloops:
        for st in [x for b_ in lp.body for x in ast.walk(b_) if isinstance(x, ast.stmt) and not isinstance(x, (ast.Try, ast.With, ast.If, ast.For, ast.While))]:
            looks_up = any(isinstance(x, ast.Subscript) and isinstance(x.ctx, ast.Load) and not isinstance(x.slice, (ast.Constant, ast.Slice)) for x in ast.walk(st))
            if not looks_up:
                continue
            nhandled += 1
            up, inside_try_body = par.get(id(st)), st
            catcher = None
            while up is not None and up is not hev.node:
                if swallows_keyerror(up) and any(x is inside_try_body for b_ in up.body for x in ast.walk(b_)):
                    catcher = up
                    break
                inside_try_body, up = up, par.get(id(up))
            around = catcher is not None and any(x is lp for x in ast.walk(catcher))
            res.check("DRAIN", "a KeyError of `%s` is dealt with inside the draining loop" % norm_stmt(st)[:40], not around, hev.loc(st), hev.qual, norm_stmt(st)[:80],
                      "when `%s` raises KeyError (an event the agent's state has no handler for) the construct that swallows it (%s) lies around "
                      "the draining loop, not inside it: the loop ends, the rest of the inbox stays and is handled a step late, after events sent "
                      "later" % (norm_stmt(st)[:50], norm_stmt(catcher)[:40] if catcher is not None else ""),
                      key="DRAIN/Agent.handle_events/ends-on-unhandled-event")
    res.ob("DRAIN", "look-ups by a computed key inside the draining loop: %d" % nhandled, True, nontrivial=False)      # none when handlers are fetched with .get()


def _cached_index_base(t: ast.AST, assigns: Optional[Dict[str, List[ast.AST]]] = None) -> Optional[str]:
    """idx.get(K) / idx[K] where idx is an attribute (self.x / model.x), or a local alias of one: a cached lookup table."""
    if isinstance(t, ast.Call) and call_name(t) == "get" and isinstance(t.func, ast.Attribute):
        base = t.func.value
    elif isinstance(t, ast.Subscript):
        base = t.value
    else:
        return None
    if isinstance(base, ast.Name) and assigns and base.id in assigns:
        for v in assigns[base.id]:
            if isinstance(v, ast.Attribute) and v.attr != "agents":
                return dotted(v)
    if isinstance(base, ast.Attribute) and base.attr != "agents":
        return dotted(base)
    return None


def model_agent_lookup_rule(idx: Index, res: Result, rule: str) -> None:
    """Model.agent(id) finds the agent by comparing ids over the live agent list and answers None for an id nobody has (shared by C14
    and C11: the scheduler may deliver through it).  A table kept across calls instead of the scan is not this shape."""
    pass
    # agent(): compares ids, None when absent
    ag = idx.func(MODEL, "Model.agent")
    cmp_ = [n for n in walk_no_nested(ag.node) if isinstance(n, ast.Compare) and len(n.ops) == 1 and isinstance(n.ops[0], ast.Eq)
            and {src(n.left), src(n.comparators[0])} == {"agent.id", "agent_id"}]
    cmp_ = [n for n in ast.walk(ag.node) if isinstance(n, ast.Compare) and len(n.ops) == 1 and isinstance(n.ops[0], ast.Eq)
            and {src(n.left), src(n.comparators[0])} == {"agent.id", "agent_id"}]
    if not cmp_:
        # by role: <the variable of a loop over self.agents>.id == <the parameter>
        idp = params(ag.node)[1] if len(params(ag.node)) > 1 else "agent_id"
        lvars = {x.target.id for x in ast.walk(ag.node) if isinstance(x, (ast.For, ast.comprehension)) and isinstance(x.target, ast.Name) and "agents" in src(x.iter)}
        cmp_ = [n for n in ast.walk(ag.node) if isinstance(n, ast.Compare) and len(n.ops) == 1 and isinstance(n.ops[0], ast.Eq)
                and {src(n.left), src(n.comparators[0])} in [{"%s.id" % v, idp} for v in lvars]]
    last = ag.node.body[-1]
    lastv = _deref(ag.node, last.value) if isinstance(last, ast.Return) and last.value is not None else None
    none_when_absent = isinstance(last, ast.Return) and (last.value is None or (isinstance(last.value, ast.Constant) and last.value.value is None))
    if isinstance(last, ast.Return) and isinstance(last.value, ast.Name):
        # found = None ... for a in self.agents: if a.id == id: found = a; break ... return found
        binds = single_assignments(ag.node).get(last.value.id, [])
        lv = {x.target.id for x in ast.walk(ag.node) if isinstance(x, ast.For) and isinstance(x.target, ast.Name) and "agents" in src(x.iter)}
        if binds and any(isinstance(b, ast.Constant) and b.value is None for b in binds) and all(
                (isinstance(b, ast.Constant) and b.value is None) or (isinstance(b, ast.Name) and b.id in lv) for b in binds):
            none_when_absent = True
    # next((a for a in self.agents if a.id == agent_id), None)
    if isinstance(lastv, ast.Call) and call_name(lastv) == "next" and len(lastv.args) == 2 and isinstance(lastv.args[1], ast.Constant) and lastv.args[1].value is None:
        gen = _deref(ag.node, lastv.args[0])
        none_when_absent = isinstance(gen, ast.GeneratorExp) and "agents" in src(gen.generators[0].iter)
    ok = bool(cmp_) and none_when_absent
    res.check(rule, "agent(id) compares ids and returns None when absent", ok, ag.loc(), ag.qual, norm_stmt(ag.node.body[-2])[:100],
              "Model.agent does not look the agent up by comparing ids / does not answer None for an unknown id",
              key="%s/Model.agent/shape" % rule)


def _id_index_of(t: ast.AST, assigns: Dict[str, List[ast.AST]]) -> Optional[ast.AST]:
    """For ``idx.get(K)`` / ``idx[K]`` where idx = {a.id: a for a in <x>.agents} return K."""
    if isinstance(t, ast.Call) and call_name(t) == "get" and isinstance(t.func, ast.Attribute) and t.args:
        base, key = t.func.value, t.args[0]
    elif isinstance(t, ast.Subscript):
        base, key = t.value, t.slice
    else:
        return None
    if not isinstance(base, ast.Name):
        return None
    # `idx = None` ... `if idx is None: idx = {...}`: built when first needed
    # ... or `idx = {...} if <there is something to deliver> else None`
    vals = []
    for v in assigns.get(base.id, []):
        stack = [v]
        while stack:
            x = stack.pop()
            if isinstance(x, ast.IfExp):
                stack += [x.body, x.orelse]
            elif not (isinstance(x, ast.Constant) and x.value is None):
                vals.append(x)
    if len(vals) != 1 or not isinstance(vals[0], ast.DictComp):
        return None
    dc = vals[0]
    if not (isinstance(dc.key, ast.Attribute) and dc.key.attr == "id" and len(dc.generators) == 1):
        return None
    g = dc.generators[0]
    if not ((dotted(g.iter) or "").endswith(".agents") and isinstance(g.target, ast.Name)
            and isinstance(dc.value, ast.Name) and dc.value.id == g.target.id
            and isinstance(dc.key.value, ast.Name) and dc.key.value.id == g.target.id and not g.ifs):
        return None
    return key


def _enclosing_if(root: ast.AST, target: ast.AST) -> Optional[ast.If]:
    found = None
    for n in ast.walk(root):
        if isinstance(n, ast.If) and any(t is target for b in n.body for t in ast.walk(b)):
            found = n       # innermost wins (walk is breadth-first: later = deeper)
    return found


def _guarded_not_none(fn: ast.AST, call: ast.Call, target: ast.AST) -> bool:
    """The call sits in an `if <target>:` / `if <target> is not None:` body."""
    if not isinstance(target, ast.Name):
        return False
    from ..util import truthy_at
    if truthy_at(fn, getattr(fn, "name", "?"), call, target.id):
        return True            # decided on the flow graph: nested ifs and guard clauses alike
    for n in ast.walk(fn):
        if isinstance(n, ast.If) and any(t is call for b in n.body for t in ast.walk(b)):
            t = n.test
            conj = t.values if isinstance(t, ast.BoolOp) and isinstance(t.op, ast.And) else [t]
            for c in conj:
                if isinstance(c, ast.Name) and c.id == target.id:
                    return True
                if isinstance(c, ast.Compare) and isinstance(c.left, ast.Name) and c.left.id == target.id \
                        and isinstance(c.ops[0], ast.IsNot):
                    return True
    return False


# ---------------------------------------------------------------------------
# C12
# ---------------------------------------------------------------------------

from ..nf import nf as _nf, equal as _nfeq  # noqa: E402


def _strip_int(e: ast.AST) -> ast.AST:
    """int(x) / round(x) coercions are transparent for the bound comparison."""
    while isinstance(e, ast.Call) and call_name(e) in ("int",) and len(e.args) == 1:
        e = e.args[0]
    return e


def _strip_int_deep(e: ast.AST) -> ast.AST:
    class T(ast.NodeTransformer):
        def visit_Call(self, node):
            self.generic_visit(node)
            if isinstance(node.func, ast.Name) and node.func.id == "int" and len(node.args) == 1 and not node.keywords:
                return node.args[0]
            return node
    import copy
    return T().visit(copy.deepcopy(e))


def _int_kinded(e: ast.AST, float_attrs: Set[str]) -> bool:
    if isinstance(e, ast.Constant):
        return isinstance(e.value, int)
    if isinstance(e, ast.Call) and call_name(e) in ("int", "round", "len", "ceil", "floor") :
        return call_name(e) != "round" or len(e.args) == 1
    if isinstance(e, ast.BinOp) and isinstance(e.op, (ast.Add, ast.Sub, ast.Mult, ast.FloorDiv)):
        return _int_kinded(e.left, float_attrs) and _int_kinded(e.right, float_attrs)
    if isinstance(e, ast.Attribute):
        return e.attr not in float_attrs
    if isinstance(e, ast.Name):
        return True          # loop counters / parameters: unknown, not definitely float
    return False


def _float_writers(idx: Index, cls_file: str, cls_name: str, attrs: Set[str]) -> Dict[str, List[str]]:
    """attrs of the class that some method stores a definitely-float value into."""
    out: Dict[str, List[str]] = {}
    ci = idx.cls(cls_file, cls_name)
    for name, defs in ci.methods.items():
        for fi in defs:
            for n in walk_no_nested(fi.node):
                if isinstance(n, ast.Assign):
                    for t in n.targets:
                        if isinstance(t, ast.Attribute) and dotted(t.value) == "self" and t.attr in attrs:
                            v = n.value
                            fl = (isinstance(v, ast.BinOp) and any(isinstance(x, ast.Constant) and isinstance(x.value, float)
                                                                   for x in (v.left, v.right))) or \
                                 (isinstance(v, ast.Call) and call_name(v) == "float") or \
                                 (isinstance(v, ast.Constant) and isinstance(v.value, float))
                            if fl:
                                out.setdefault(t.attr, []).append("%s: %s" % (fi.qual, norm_stmt(n)))
    return out


def agents_list_not_edited_in_place(idx: Index, res: Result, rule: str, aloop: ast.For) -> None:
    """Shared by C12 and C11: the step loop iterates the live list model.agents, so no Model method shrinks or reorders it in place."""
    snapshot = isinstance(aloop.iter, ast.Call) and call_name(aloop.iter) in ("list", "tuple")
    if not snapshot:
        mcls = idx.cls(MODEL, "Model")
        for name, defs in mcls.methods.items():
            fi_ = defs[-1]
            for n in walk_no_nested(fi_.node):
                hit = None
                if isinstance(n, (ast.Assign, ast.AugAssign)):
                    tg = n.targets if isinstance(n, ast.Assign) else [n.target]
                    for t in tg:
                        if isinstance(t, ast.Subscript) and dotted(t.value) == "self.agents":
                            hit = n
                if isinstance(n, ast.Delete) and any(isinstance(t, ast.Subscript) and dotted(t.value) == "self.agents" for t in n.targets):
                    hit = n
                if isinstance(n, ast.Call) and isinstance(n.func, ast.Attribute) and dotted(n.func.value) == "self.agents" and \
                        n.func.attr in ("remove", "pop", "insert", "sort", "reverse", "clear", "extend"):
                    hit = n
                if hit is not None:
                    res.check(rule, "Model.%s does not edit the agent list in place" % name, False, fi_.loc(hit), fi_.qual, norm_stmt(hit)[:100],
                              "Model.%s edits self.agents in place (%s) while SimultaneousScheduler.run_step iterates directly over "
                              "model.agents: when an agent or handler calls it during a step, the list shifts under the iterator and the next "
                              "live agent neither handles its events nor acts in that step" % (name, norm_stmt(hit)[:60]),
                              key="%s/Model.%s/in-place-edit-of-agents" % (rule, name))


def check_c12(idx: Index, tier: str, res: Result) -> None:
    res.explanation = ("Static decision of the loop and ordering structure of SimultaneousScheduler: run() is range(start, stop+1) x "
                       "range(round(1/dt)) with exactly one run_step per iteration on the running path and integer-kinded range "
                       "arguments; in run_step, on every path, distribute < begin_round < for each agent in list order "
                       "(handle_events < act, once each) < end_round < collect; time = round + step*dt is what every callback "
                       "receives; the no-collection branch fires exactly on the last iteration of the two loops; Model.run/"
                       "run_step delegate unchanged.")
    res.rules = ["LOOPS: range bounds in normal form", "ORDER: phase dataflow on the CFG of run_step",
                 "TIME: normal form of the time expression and its def-use to every callback",
                 "LAST: agreement of the last-step predicate with the loop bounds", "INTKIND: float writers reaching range()",
                 "DELEGATE: argument wiring of Model.run / Model.run_step"]
    res.not_decided = ["behaviour of user callbacks (begin_round/act/...)", "thread scheduling in HybridRunner",
                       "float rounding of round(1/dt) for dt whose reciprocal is not an integer"]
    run = idx.func(SIMSCHED, "SimultaneousScheduler.run")
    rs = idx.func(SIMSCHED, "SimultaneousScheduler.run_step")
    mparam = params(run.node)[1]

    # ---- LOOPS ---------------------------------------------------------------
    fors = [n for n in walk_no_nested(run.node) if isinstance(n, ast.For)]
    if len(fors) == 1 and isinstance(fors[0].iter, ast.Call) and call_name(fors[0].iter) in ("timerange", "arange", "linspace"):
        res.find("LOOPS", "LOOPS/run/steps-from-a-time-grid", run.loc(fors[0]), run.qual, src(fors[0].iter)[:90],
                 "run() takes its steps from %s: a time grid from start to stop has one point per dt *up to the stop time*, whereas a run executes "
                 "round(1/dt) steps in every round including the last one (stoptime, stoptime+dt, ...): for dt < 1 the steps after the stop time "
                 "are never executed and the last-step statistics are never taken" % src(fors[0].iter)[:70])
        return
    if len(fors) != 2:
        raise AnalysisError("SimultaneousScheduler.run: expected two nested for loops, found %d" % len(fors))
    outer, inner = sorted(fors, key=seq)
    if not any(inner is x for x in ast.walk(outer)):
        raise AnalysisError("SimultaneousScheduler.run: loops are not nested")
    for lp in (outer, inner):
        if not (isinstance(lp.iter, ast.Call) and call_name(lp.iter) == "range" and isinstance(lp.target, ast.Name)):
            raise AnalysisError("SimultaneousScheduler.run: loop %r is not a for over range()" % src(lp.iter))
    oa = outer.iter.args
    ia = inner.iter.args
    o_lo = oa[0] if len(oa) >= 2 else ast.Constant(0)
    o_hi = oa[1] if len(oa) >= 2 else oa[0]
    i_lo = ia[0] if len(ia) >= 2 else ast.Constant(0)
    i_hi = ia[1] if len(ia) >= 2 else ia[0]
    m = mparam
    res.check("LOOPS", "rounds start at model.starttime", _nfeq(_strip_int_deep(o_lo), "%s.starttime" % m) and len(oa) <= 2,
              run.loc(outer), run.qual, src(outer.iter), "the round loop does not start at the model's start time (or has a step)",
              key="LOOPS/run/outer-lower")
    res.check("LOOPS", "rounds run through model.stoptime inclusive", _nfeq(_strip_int_deep(o_hi), "%s.stoptime + 1" % m),
              run.loc(outer), run.qual, src(outer.iter),
              "the round loop's upper bound is %s; the stop time itself must be executed (stoptime + 1)" % src(o_hi),
              key="LOOPS/run/outer-upper")
    # the bound may be handed out by a helper that remembers it per dt (a validated memo): every way it is produced is the formula
    from ..util import value_alternatives
    _cls = idx.cls(SIMSCHED, "SimultaneousScheduler").node
    i_alts = value_alternatives(_cls, run.node, i_hi)
    res.check("LOOPS", "steps per round = round(1/dt)", bool(i_alts) and all(_nfeq(_strip_int_deep(a_), "round(1 / %s.dt)" % m) for a_ in i_alts)
              and _nfeq(i_lo, "0") and len(ia) <= 2,
              run.loc(inner), run.qual, src(inner.iter),
              "the step loop is %s; a round has exactly round(1/dt) steps starting at 0" % src(inner.iter), key="LOOPS/run/inner")
    # exactly one run_step per inner iteration on the running path, wired to the loop variables
    calls = [c for c in iter_calls(inner) if call_name(c) == "run_step"]
    res.check("LOOPS", "one run_step call in the step loop", len(calls) == 1, run.loc(inner), run.qual,
              "; ".join(src(c) for c in calls), "the step loop contains %d run_step calls" % len(calls), key="LOOPS/run/call-count")
    outside = [c for c in iter_calls(run.node) if call_name(c) == "run_step" and c not in calls]
    res.check("LOOPS", "no run_step outside the step loop", not outside, run.loc(), run.qual, "; ".join(src(c) for c in outside),
              "run() calls run_step outside the step loop", key="LOOPS/run/extra-call")
    if calls:
        c = calls[0]
        rsp = params(rs.node)[1:]
        got = [src(a) for a in c.args] + ["%s=%s" % (k.arg, src(k.value)) for k in c.keywords]
        bound = dict(zip(rsp, [src(a) for a in c.args]))
        bound.update({k.arg: src(k.value) for k in c.keywords if k.arg})
        ok = bound.get("model") == m and bound.get("sim_round") == outer.target.id and bound.get("step") == inner.target.id \
            and bound.get("collect_data", "collect_data") == "collect_data"
        res.check("LOOPS", "run_step(model, round, step, ..., collect_data)", ok, run.loc(c), run.qual, src(c),
                  "run_step is not called with (model, round variable, step variable, collect_data): %s" % got,
                  key="LOOPS/run/call-args")
        # the call is on the 'running' path only guarded by self.running tests
        guards = [g for g in ast.walk(inner) if isinstance(g, ast.If) and any(x is c for b in g.body for x in ast.walk(b))]
        ok = all(src(g.test) in ("self.running",) for g in guards)
        res.check("LOOPS", "run_step guarded only by self.running", ok, run.loc(c), run.qual, "; ".join(src(g.test) for g in guards),
                  "the step is skipped under a condition other than the scheduler having been stopped", key="LOOPS/run/guards")
    # INTKIND
    fw = _float_writers(idx, MODEL, "Model", {"starttime", "stoptime"})
    for arg in list(outer.iter.args) + list(inner.iter.args):
        ok = all(_int_kinded(a_, set(fw)) for a_ in value_alternatives(_cls, run.node, arg))
        res.check("INTKIND", "range argument %s is integer-kinded" % src(arg), ok, run.loc(arg), run.qual, src(arg),
                  "range() receives %s un-coerced while %s stores a float into it: TypeError unless run_specs()/configure() "
                  "overwrote it with an int" % (src(arg), "; ".join(sum(fw.values(), []))[:160]),
                  key="INTKIND/run/%s" % src(arg))

    # ---- ORDER in run_step -------------------------------------------------------
    mp = params(rs.node)[1]
    def _agents_iter(it: ast.AST) -> bool:
        # the live list or a snapshot of it in list order (list()/tuple()); reversed()/sorted() change the order
        if isinstance(it, ast.Call) and call_name(it) in ("list", "tuple") and len(it.args) == 1:
            it = it.args[0]
        return (dotted(it) or "") == "%s.agents" % mp
    body_loops = [n for n in rs.node.body if isinstance(n, ast.For) and _agents_iter(n.iter)]
    res.check("ORDER", "agents visited in list (creation) order", len(body_loops) == 1, rs.loc(), rs.qual,
              "for agent in %s.agents" % mp, "the agent loop does not iterate directly over model.agents (creation order)",
              key="ORDER/run_step/agent-iteration")
    if len(body_loops) != 1:
        raise AnalysisError("agent loop not found in run_step")
    aloop = body_loops[0]
    avar = aloop.target.id if isinstance(aloop.target, ast.Name) else None
    # the loop iterates the live list itself: nothing reachable from agent code may shrink or reorder it in place
    # (delete_agents rebinds self.agents, so the running iteration keeps the list it started with; append is how agents are born)
    agents_list_not_edited_in_place(idx, res, "ORDER", aloop)
    cfg = build_cfg(rs.node, rs.qual)
    EVENTS = ["distribute", "begin_round", "handle_events", "act", "end_round", "collect"]

    def events_of(node: Node) -> List[str]:
        if node.ast is None or node.kind in ("def", "handler", "dispatch", "with"):
            return []
        probe = node.ast.iter if node.kind == "iter" else node.ast
        ev = []
        for c in iter_calls(probe):
            n = call_name(c)
            r = call_recv(c) or ""
            if n == "handle_delayed_event":
                ev.append("distribute")
            elif n == "begin_round" and r == mp:
                ev.append("begin_round")
            elif n == "end_round" and r == mp:
                ev.append("end_round")
            elif n == "handle_events" and r == avar:
                ev.append("handle_events")
            elif n == "act" and r == avar:
                ev.append("act")
            elif n == "collect_agent_statistics":
                ev.append("collect")
        return ev

    aiter = [n for n in cfg.nodes if n.kind == "iter" and n.ast is aloop]
    if not aiter:
        raise AnalysisError("agent loop header not in CFG")
    aiter_id = aiter[0].id
    violations: Dict[str, Tuple[Node, tuple]] = {}

    def tr(node: Node, fact, label):
        seen, per = fact         # seen: frozenset of phases; per: (handle count, act count) in this iteration
        if node.id == aiter_id and label == "loop":
            per = (0, 0)
        if label in ("exc", "genclose"):
            return [(seen, per)]
        for ev in events_of(node):
            i = EVENTS.index(ev)
            later = [e for e in EVENTS[i + 1:] if e in seen and not (ev in ("handle_events", "act") and e in ("handle_events", "act"))]
            if ev == "distribute":
                later = [e for e in seen if e != "distribute"]
            if later:
                violations.setdefault("%s after %s" % (ev, later[0]), (node, fact))
            need = {"begin_round": [], "handle_events": ["begin_round"], "act": ["begin_round"],
                    "end_round": ["begin_round"], "collect": ["end_round"], "distribute": []}[ev]
            for nd_ in need:
                if nd_ not in seen:
                    violations.setdefault("%s without %s before it" % (ev, nd_), (node, fact))
            if ev == "handle_events":
                if per[1] > 0:
                    violations.setdefault("handle_events after act for the same agent", (node, fact))
                per = (min(per[0] + 1, 2), per[1])
            if ev == "act":
                if per[0] == 0:
                    violations.setdefault("act without handle_events before it", (node, fact))
                per = (per[0], min(per[1] + 1, 2))
            seen = seen | {ev}
        if node.id == aiter_id and label == "loop":
            pass
        return [(seen, per)]

    # per-iteration completeness is checked on the back edge / loop exit
    flow = Flow(cfg, [(frozenset(), (0, 0))], tr)
    preds = cfg.preds()
    for (p, lab) in preds[aiter_id]:
        if p in [n.id for n in cfg.nodes] and _nseq(cfg.nodes[p]) >= seq(aloop) and lab not in ("exc",):
            for f in flow.at[p]:
                seen, per = tr(cfg.nodes[p], f, lab)[0]
                if _nseq(cfg.nodes[p]) > seq(aloop) or cfg.nodes[p].kind != "join":
                    if per != (1, 1) and _nseq(cfg.nodes[p]) > seq(aloop):
                        violations.setdefault("an iteration of the agent loop ends with handle_events x%d, act x%d" % per,
                                              (cfg.nodes[p], f))
    for f in flow.at[cfg.exit]:
        seen, per = f
        for need in ("begin_round", "end_round"):
            if need not in seen:
                violations.setdefault("a step can complete without %s" % need, (cfg.nodes[cfg.exit], f))
    for what in ["distribute", "begin_round", "handle_events", "act", "end_round", "collect"]:
        hit = [k for k in violations if k.startswith(what + " ") or (" " + what) in k]
        res.ob("ORDER", "phase %s ordered" % what, not hit)
    if not any(events_of(n) == ["act"] or "act" in events_of(n) for n in cfg.nodes):
        raise AnalysisError("anchor vanished: agent.act call in run_step")
    for k, (node, fact) in violations.items():
        res.find("ORDER", "ORDER/run_step/%s" % k, rs.loc(node.ast) if node.ast is not None else rs.loc(), rs.qual,
                 node.text(), "step phases out of order: %s; path: %s" % (k, " ".join(flow.witness(node.id, fact, 14))))
    res.floor("phase events found in run_step", sum(len(events_of(n)) for n in cfg.nodes), 6)      # distribute, begin, handle, act, end, collect (the collect call may be written once or twice)

    # ---- TIME ------------------------------------------------------------------------
    assigns = single_assignments(rs.node)
    sp = params(rs.node)
    # the step time: what the callbacks receive first; a local or the scheduler's attribute, one defined from the other in either order
    attr_defs: Dict[str, List[ast.AST]] = {}
    for n in walk_no_nested(rs.node):
        if isinstance(n, ast.Assign) and len(n.targets) == 1 and dotted(n.targets[0]) and (dotted(n.targets[0]) or "").startswith("self."):
            attr_defs.setdefault(dotted(n.targets[0]), []).append(n.value)

    def value_of(e, depth=0):
        if depth < 4 and isinstance(e, ast.Name) and len(assigns.get(e.id, [])) == 1:
            return value_of(assigns[e.id][0], depth + 1)
        if depth < 4 and isinstance(e, ast.Attribute) and dotted(e) in attr_defs and len(attr_defs[dotted(e)]) == 1:
            return value_of(attr_defs[dotted(e)][0], depth + 1)
        return e
    tvals = assigns.get("time", [])
    tval = value_of(ast.Name(id="time", ctx=ast.Load())) if len(tvals) == 1 else None
    ok = tval is not None and _nfeq(tval, "%s + %s * %s.dt" % (sp[2], sp[3], mp))
    res.check("TIME", "time = round + step*dt", ok, rs.loc(tvals[0]) if tvals else rs.loc(), rs.qual,
              "time = %s" % (src(tval) if tval is not None else "?"), "the step time is not sim_round + step * model.dt",
              key="TIME/run_step/formula")
    cur = [n for n in walk_no_nested(rs.node) if isinstance(n, ast.Assign) and dotted(n.targets[0]) == "self.current_time"]
    res.check("TIME", "current_time = time", bool(cur) and tval is not None and all(src(value_of(n.value)) == src(tval) for n in cur), rs.loc(), rs.qual,
              norm_stmt(cur[0]) if cur else "", "the scheduler's current_time is not the step time", key="TIME/run_step/current_time")
    ncb = 0
    for c in iter_calls(rs.node):
        n = call_name(c)
        if n in ("begin_round", "end_round", "handle_events", "act"):
            ncb += 1
            want = ["time", sp[2], sp[3]]
            got = [src(a) for a in c.args[:3]]
            res.check("TIME", "%s(time, round, step)" % src(c.func), got == want, rs.loc(c), rs.qual, src(c),
                      "callback receives %s instead of (time, round, step)" % got, key="TIME/run_step/%s-args" % n)
        if n == "collect_agent_statistics":
            ncb += 1
            got = [src(a) for a in c.args[:2]]
            res.check("TIME", "collect(time, model.agents)", got == ["time", "%s.agents" % mp], rs.loc(c), rs.qual, src(c),
                      "statistics are recorded for %s instead of (time, model.agents)" % got, key="TIME/run_step/collect-args")
    res.floor("callback call sites in run_step", ncb, 5)       # begin, handle, act, end + at least one collect

    # ---- LAST: the no-collection branch --------------------------------------------------
    collects = [c for c in iter_calls(rs.node) if call_name(c) == "collect_agent_statistics"]
    if not collects:
        raise AnalysisError("anchor vanished: collect_agent_statistics call in run_step")
    cdp = sp[5] if len(sp) > 5 else "collect_data"

    # the condition under which statistics are recorded, in disjunctive normal form - whatever the nesting: `if dc: if cd: C else: if
    # last: C`, `if dc and (cd or last): C`, guard clauses ...
    def dnf(test, outcome):
        if isinstance(test, ast.UnaryOp) and isinstance(test.op, ast.Not):
            return dnf(test.operand, not outcome)
        if isinstance(test, ast.BoolOp):
            parts = [dnf(v, outcome) for v in test.values]
            conj_ = (isinstance(test.op, ast.And) and outcome) or (isinstance(test.op, ast.Or) and not outcome)
            if conj_:
                acc = [[]]
                for p_ in parts:
                    acc = [a_ + b_ for a_ in acc for b_ in p_]
                return acc
            return [d_ for p_ in parts for d_ in p_]
        if isinstance(test, ast.Compare) and len(test.ops) == 1 and isinstance(test.ops[0], ast.NotEq):
            pos = ast.copy_location(ast.Compare(left=test.left, ops=[ast.Eq()], comparators=test.comparators), test)
            return [[(pos, not outcome)]]
        return [[(test, outcome)]]

    def path_dnf(stmts, call, acc):
        for st in stmts:
            if any(x is call for x in ast.walk(st)):
                if isinstance(st, ast.If) and not any(x is call for x in ast.walk(st.test)):
                    inb = any(x is call for b in st.body for x in ast.walk(b))
                    here = dnf(st.test, inb)
                    return path_dnf(st.body if inb else st.orelse, call, [a_ + b_ for a_ in acc for b_ in here])
                if isinstance(st, (ast.For, ast.While, ast.With, ast.Try)):
                    raise AnalysisError("statistics are recorded inside a %s in run_step" % type(st).__name__)
                return acc
            # a guard clause before the call: `if <test>: return/continue`  narrows what follows
            if isinstance(st, ast.If) and st.body and isinstance(st.body[-1], ast.Return) and not st.orelse:
                acc = [a_ + b_ for a_ in acc for b_ in dnf(st.test, False)]
        return acc
    disj = []
    for c_ in collects:
        disj += path_dnf(rs.node.body, c_, [[]])

    def is_cd(a_):
        return isinstance(a_, ast.Name) and a_.id == cdp

    def is_dc(a_):
        return "data_collector" in src(a_)
    d_on = [d_ for d_ in disj if any(is_cd(a_) and t_ for a_, t_ in d_)]
    d_off = [d_ for d_ in disj if not any(is_cd(a_) and t_ for a_, t_ in d_)]
    ok_sw = bool(d_on) and all(all(is_cd(a_) or is_dc(a_) for a_, _t in d_) for d_ in d_on)
    res.check("LAST", "collection switched by collect_data", ok_sw, rs.loc(collects[0]), rs.qual, "; ".join(" and ".join(
        ("" if t_ else "not ") + src(a_) for a_, t_ in d_) for d_ in d_on)[:120],
        "statistics are not recorded whenever collect_data is set (and a collector exists)", key="LAST/run_step/switch")
    if len(d_off) != 1:
        raise AnalysisError("unrecognised last-step branch (%d ways to record statistics with collect_data off)" % len(d_off))
    conj = []
    for a_, t_ in d_off[0]:
        if is_cd(a_) or is_dc(a_):
            continue
        conj.append(a_ if t_ else ast.copy_location(ast.UnaryOp(op=ast.Not(), operand=a_), a_))
    if not conj:
        raise AnalysisError("unrecognised last-step branch (no condition)")
    lt = conj[0] if len(conj) == 1 else ast.copy_location(ast.BoolOp(op=ast.And(), values=conj), conj[0])
    want = {sp[2]: _nf(ast.BinOp(left=_strip_int_deep(o_hi), op=ast.Sub(), right=ast.Constant(1))),
            sp[3]: _nf(ast.BinOp(left=_strip_int_deep(i_hi), op=ast.Sub(), right=ast.Constant(1)))}
    seen_vars = set()
    for cnd in conj:
        if not (isinstance(cnd, ast.Compare) and len(cnd.ops) == 1 and isinstance(cnd.ops[0], (ast.Eq, ast.GtE)) and isinstance(cnd.left, ast.Name)
                and cnd.left.id in want):
            # a test over something else (a derived quantity such as the progress ratio) cannot pin the step: the quantities the scheduler
            # derives from (round, step) are the same for several steps of the last round or reach their final value before the last step
            inl = src(cnd)
            for a_ in [x for x in ast.walk(cnd) if isinstance(x, ast.Attribute) and dotted(x) and (dotted(x) or "").startswith("self.")]:
                defs = [n_ for n_ in walk_no_nested(rs.node) if isinstance(n_, ast.Assign) and dotted(n_.targets[0]) == dotted(a_)]
                if len(defs) == 1:
                    inl = inl.replace(src(a_), "(%s)" % src(defs[0].value))
            res.find("LAST", "LAST/run_step/not-a-test-of-the-loop-variables", rs.loc(cnd), rs.qual, src(cnd),
                     "with data collection off, statistics are recorded when `%s`%s; the rule accepts only tests of the loop variables against "
                     "the loops' last values (%s == / >= %s - 1 and %s == / >= %s - 1): a test on a derived quantity is true for more than "
                     "one step of the last round (or for none), so the final statistics are taken at the wrong time or several times"
                     % (src(cnd), (" (= `%s`)" % inl) if inl != src(cnd) else "", sp[2], src(o_hi), sp[3], src(i_hi)))
            continue
        v = cnd.left.id
        seen_vars.add(v)
        # the run() bounds are phrased over run()'s model parameter; rename for comparison
        rhs = _strip_int_deep(cnd.comparators[0])
        okb = v in want and _nf(rhs) == want[v] if mp == m else None
        if okb is None:
            class Ren(ast.NodeTransformer):
                def visit_Name(self, node):
                    return ast.Name(id=m, ctx=node.ctx) if node.id == mp else node
            okb = v in want and _nf(Ren().visit(rhs)) == want[v]
        res.check("LAST", "last-step test on %s agrees with the loop bound" % v, bool(okb), rs.loc(cnd), rs.qual, src(cnd),
                  "with data collection off, statistics are recorded when %s, but the loops in run() end at %s = %s - 1"
                  % (src(cnd), v, src(o_hi if v == sp[2] else i_hi)), key="LAST/run_step/%s" % v)
    res.check("LAST", "last-step test constrains round and step", seen_vars == {sp[2], sp[3]}, rs.loc(lt), rs.qual, src(lt),
              "the last-step predicate does not constrain both the round and the step", key="LAST/run_step/both")

    # a run starts from empty statistics whether or not it collects every step: with collection off only the final step's entry remains
    from ..util import implied as _implied
    runf = idx.func(SIMSCHED, "SimultaneousScheduler.run")
    resets = [c for c in iter_calls(runf.node) if call_name(c) == "reset" and "data_collector" in (call_recv(c) or "")]
    if not resets:
        res.find("LAST", "LAST/run/no-collector-reset", runf.loc(), runf.qual, "data_collector.reset()", "SimultaneousScheduler.run never resets the data collector: the statistics of earlier runs stay in the collector")
    for c in resets:
        atoms = []

        def rec(stmts, acc):
            for st in stmts:
                if any(x is c for x in ast.walk(st)):
                    if isinstance(st, ast.If) and not any(x is c for x in ast.walk(st.test)):
                        inb = any(x is c for b in st.body for x in ast.walk(b))
                        rec(st.body if inb else st.orelse, acc + _implied(st.test, inb))
                    elif isinstance(st, (ast.For, ast.While, ast.With, ast.Try)):
                        rec(list(st.body) + list(getattr(st, "orelse", [])), acc)
                    else:
                        atoms.extend(acc)
                    return
        rec(runf.node.body, [])
        foreign = [(a, t) for a, t in atoms if "data_collector" not in src(a)]
        res.check("LAST", "run() resets the data collector whenever there is one", not foreign, runf.loc(c), runf.qual,
                  "; ".join("%s is %s" % (src(a), t) for a, t in atoms)[:100],
                  "the data collector is reset only when %s: a run with data collection switched off keeps the statistics of earlier runs next to its "
                  "final-step entry" % " and ".join("%s is %s" % (src(a), t) for a, t in foreign), key="LAST/run/conditional-collector-reset")

    # ---- every scenario of a run is run once, by its own worker: nothing a worker captures changes under it --------------------
    from ..util import closure_sweep
    res.floor("code units examined for late-bound closures", closure_sweep(idx, res, "WORKER", ["BPTK_Py/scenariorunners/hybrid_runner.py", "BPTK_Py/modeling/"]), 20)

    # ---- DELEGATE ----------------------------------------------------------------------------
    mrun = idx.func(MODEL, "Model.run")
    for c in [c for c in iter_calls(mrun.node) if call_name(c) == "run" and (call_recv(c) or "").endswith("scheduler")]:
        got = [src(a) for a in c.args]
        ok = len(got) == 3 and got[0] == "self" and got[2] == "collect_data"
        res.check("DELEGATE", "Model.run -> scheduler.run(self, widget, collect_data)", ok, mrun.loc(c), mrun.qual, src(c),
                  "Model.run does not pass itself and collect_data through to the scheduler", key="DELEGATE/Model.run/%s" % src(c))
    mstep = idx.func(MODEL, "Model.run_step")
    sc = [c for c in iter_calls(mstep.node) if call_name(c) == "run_step"]
    ok = len(sc) == 1 and [src(a) for a in sc[0].args][:3] == ["self", "0", "step"] and "collect_data" in [src(a) for a in sc[0].args]
    res.check("DELEGATE", "Model.run_step -> scheduler.run_step(self, 0, step, ..., collect_data)", ok, mstep.loc(), mstep.qual,
              src(sc[0]) if sc else "", "Model.run_step does not delegate (self, 0, step, ..., collect_data)", key="DELEGATE/Model.run_step")


# ---------------------------------------------------------------------------
# C13 - statistics fold
# ---------------------------------------------------------------------------

def _chain(e: ast.AST, aliases: Dict[str, Tuple[str, ...]]) -> Optional[Tuple[str, ...]]:
    """('self.agent_statistics', 'time', 'agent.agent_type', ...) for subscript chains, through local aliases."""
    idxs: List[str] = []
    while isinstance(e, ast.Subscript):
        idxs.append(src(e.slice))
        e = e.value
    idxs.reverse()
    if isinstance(e, ast.Name) and e.id in aliases:
        return aliases[e.id] + tuple(idxs)
    d = dotted(e)
    if d is None:
        return None
    return (d,) + tuple(idxs)


def check_c13(idx: Index, tier: str, res: Result) -> None:
    res.explanation = ("Static decision of the fold structure of DataCollector.collect_agent_statistics: count incremented once "
                       "per agent outside the property loop; total/min/max/mean each updated from its own previous cell and the "
                       "property value with the operator its name says, first value taken from the data; mean = total/count of "
                       "the same (time,type,state) cell computed after both were updated; reader/writer key agreement with "
                       "HybridRunner; zero-fill on the frame path. An unrecognised restructuring is an ANALYSIS-ERROR.")
    res.rules = ["FOLD: access-path normal form of every store into agent_statistics", "KEYS: keys read by HybridRunner vs written",
                 "FILL: fillna(0) on the frame path"]
    res.not_decided = ["numeric equality for populations (float summation order)", "pandas behaviour"]
    fi = idx.func(COLLECTOR, "DataCollector.collect_agent_statistics")
    from ..util import expand_aliases
    fn = expand_aliases(fi.node)            # access paths written out (row aliases, named values)
    ps = params(fn)
    tparam, aparam = ps[1], ps[2]
    loops = [n for n in walk_no_nested(fn) if isinstance(n, ast.For)]
    aloops = [n for n in loops if src(n.iter) == aparam and isinstance(n.target, ast.Name)]
    if len(aloops) != 1:
        raise AnalysisError("agent loop not found in collect_agent_statistics")
    aloop = aloops[0]
    av = aloop.target.id
    ploops = [n for n in ast.walk(aloop) if isinstance(n, ast.For) and n is not aloop]
    def own_properties(it) -> bool:
        """agent.properties.items() / (agent.properties or {}).items()"""
        if not (isinstance(it, ast.Call) and call_name(it) == "items" and isinstance(it.func, ast.Attribute) and not it.args):
            return False
        base = it.func.value
        if isinstance(base, ast.BoolOp) and isinstance(base.op, ast.Or) and len(base.values) == 2 and isinstance(base.values[1], ast.Dict) and not base.values[1].keys:
            base = base.values[0]
        return src(base) == "%s.properties" % av
    if len(ploops) != 1 or not (own_properties(ploops[0].iter) and isinstance(ploops[0].target, ast.Tuple) and len(ploops[0].target.elts) == 2):
        for pl in ploops[:1]:
            if isinstance(pl.iter, ast.Call) and (call_recv(pl.iter) or "") == "self":
                res.find("FOLD", "FOLD/properties/remembered-names", fi.loc(pl), fi.qual, norm_stmt(pl)[:90],
                         "which properties of an agent are aggregated is answered by %s - something the collector keeps between agents - not read "
                         "from the agent's own properties: two agents of one type with different property sets are aggregated with the names of "
                         "whichever was seen first, a numeric property the first one lacks is never aggregated" % src(pl.iter)[:50])
        raise AnalysisError("property loop 'for name, value in agent.properties.items()' not found")
    ploop = ploops[0]
    pname, pval = [e.id for e in ploop.target.elts]
    VALUE = '%s["value"]' % pval
    ROOT = "self.agent_statistics"
    CELL = (ROOT, tparam, "%s.agent_type" % av, "%s.state" % av)
    PCELL = CELL + (pname,)
    # local aliases of cells
    aliases: Dict[str, Tuple[str, ...]] = {}
    for n in ast.walk(fn):
        if isinstance(n, ast.Assign) and len(n.targets) == 1 and isinstance(n.targets[0], ast.Name):
            ch = _chain(n.value, aliases)
            if ch and ch[0] == ROOT and isinstance(n.value, ast.Subscript):
                aliases[n.targets[0].id] = ch

    def norm_value(e: ast.AST) -> str:
        return src(e).replace("'", '"')

    in_ploop = {id(x) for x in ast.walk(ploop)}
    # ZERO (round 10): the value of a numeric property is never used as a Python condition in the property loop - 0 and 0.0 are values
    # of the population like any other; `if not value` ("not initialised yet") routes exactly the zeros past the fold, so min / max / mean
    # of a cell with a zero in it are the aggregates of the others.  Comparisons, isinstance and `is None` tests are not truth tests.
    def _truth_tested(t: ast.AST) -> List[ast.AST]:
        if isinstance(t, ast.BoolOp):
            return [y for v in t.values for y in _truth_tested(v)]
        if isinstance(t, ast.UnaryOp) and isinstance(t.op, ast.Not):
            return _truth_tested(t.operand)
        if isinstance(t, (ast.Compare, ast.Constant)) or (isinstance(t, ast.Call) and call_name(t) in ("isinstance", "hasattr", "callable")):
            return []
        return [t]
    value_names = {VALUE}
    for n in ast.walk(ploop):
        if isinstance(n, ast.Assign) and len(n.targets) == 1 and isinstance(n.targets[0], ast.Name) and norm_value(n.value) in value_names:
            value_names.add(n.targets[0].id)
    tests = [n.test for n in ast.walk(ploop) if isinstance(n, (ast.If, ast.IfExp, ast.While))]
    zero_bad = [(t, e) for t in tests for e in _truth_tested(t) if norm_value(e) in value_names]
    res.check("ZERO", "no truth test of a numeric property value in the property loop (%d tests)" % len(tests), not zero_bad,
              fi.loc(zero_bad[0][0]) if zero_bad else fi.loc(ploop), fi.qual, src(zero_bad[0][0])[:100] if zero_bad else "",
              "the collector decides what to do with a numeric property by the truthiness of its value (`%s`): an agent whose value is 0 "
              "takes the 'missing' path, so the zero is left out of total / min / max / mean although the agent is counted"
              % (src(zero_bad[0][0])[:80] if zero_bad else ""), key="ZERO/value-truth-test")
    stores = []
    for n in ast.walk(aloop):
        if isinstance(n, (ast.Assign, ast.AugAssign)):
            tg = n.targets[0] if isinstance(n, ast.Assign) else n.target
            ch = _chain(tg, aliases)
            if ch and ch[0] == ROOT:
                stores.append((ch, n))
    if len(stores) < 6:
        raise AnalysisError("only %d stores into agent_statistics recognised" % len(stores))
    res.floor("stores into agent_statistics", len(stores), 8)

    def where(n):
        return fi.loc(n)

    # --- count
    cnt = [(ch, n) for ch, n in stores if ch == CELL + ("'count'",) or ch == CELL + ('"count"',)]
    incs = [n for ch, n in cnt if isinstance(n, ast.AugAssign)]
    ok = len(incs) == 1 and isinstance(incs[0].op, ast.Add) and const_int(incs[0].value) == 1
    res.check("FOLD", "count += 1 once per agent", ok, where(incs[0]) if incs else fi.loc(), fi.qual,
              norm_stmt(incs[0]) if incs else "", "the per-state count is not incremented by exactly one per agent",
              key="FOLD/count/increment")
    if incs:
        res.check("FOLD", "count incremented outside the property loop", id(incs[0]) not in in_ploop and seq(incs[0]) < seq(ploop),
                  where(incs[0]), fi.qual, norm_stmt(incs[0]),
                  "count is incremented inside (or after) the property loop: it counts properties, or the mean divides by a stale count",
                  key="FOLD/count/position")
    inits = [n for ch, n in stores if ch == CELL and isinstance(n, ast.Assign) and isinstance(n.value, ast.Dict)]
    ok = len(inits) == 1 and [norm_value(k) for k in inits[0].value.keys] == ['"count"'] and const_int(inits[0].value.values[0]) == 0
    res.check("FOLD", "state cell initialised {count: 0}", ok, where(inits[0]) if inits else fi.loc(), fi.qual,
              norm_stmt(inits[0]) if inits else "", "a new state cell does not start at count 0", key="FOLD/count/init")

    # --- property cell init
    pinits = [n for ch, n in stores if ch == PCELL and isinstance(n, ast.Assign) and isinstance(n.value, ast.Dict)]
    if len(pinits) != 1:
        raise AnalysisError("property cell initialisation not recognised")
    init = {norm_value(k): v for k, v in zip(pinits[0].value.keys, pinits[0].value.values)}
    res.check("FOLD", "total starts at 0", '"total"' in init and const_int(init['"total"']) == 0, where(pinits[0]), fi.qual,
              norm_stmt(pinits[0]), "the running total does not start at 0", key="FOLD/total/init")
    for k in ("min", "max"):
        v = init.get('"%s"' % k)
        ok = v is None or (isinstance(v, ast.Constant) and v.value is None)
        res.check("FOLD", "%s takes its first value from the data" % k, ok, where(pinits[0]), fi.qual, norm_stmt(pinits[0]),
                  "%s is initialised with the constant %s: wrong for populations whose values all lie on the other side of it"
                  % (k, src(v) if v is not None else ""), key="FOLD/%s/init-constant" % k)

    def key_of(ch):
        return ch[-1].strip("'\"")

    pst = [(ch, n) for ch, n in stores if len(ch) == len(PCELL) + 1 and ch[:len(PCELL)] == PCELL]
    bykey: Dict[str, List[ast.AST]] = {}
    for ch, n in pst:
        bykey.setdefault(key_of(ch), []).append(n)
    for k in ("total", "mean", "min", "max"):
        if k not in bykey:
            raise AnalysisError("no store into the '%s' cell recognised" % k)
    extra = set(bykey) - {"total", "mean", "min", "max"}
    if extra:
        res.note("additional aggregate cells written: %s" % sorted(extra))
    for k, ns in bykey.items():
        for n in ns:
            if id(n) not in in_ploop:
                res.find("FOLD", "FOLD/%s/outside-property-loop" % k, where(n), fi.qual, norm_stmt(n)[:120],
                         "the %s cell is updated outside the per-property loop" % k)

    # --- total
    tot = bykey["total"]
    ok = len(tot) == 1 and isinstance(tot[0], ast.AugAssign) and isinstance(tot[0].op, ast.Add) and norm_value(tot[0].value) == VALUE
    if not ok and len(tot) == 1 and isinstance(tot[0], ast.Assign):
        v = tot[0].value     # total = total + value
        ok = isinstance(v, ast.BinOp) and isinstance(v.op, ast.Add) and {norm_value(v.left), norm_value(v.right)} >= {VALUE} and \
            any(_chain(x, aliases) == PCELL + (ch_key,) for x in (v.left, v.right) for ch_key in ('"total"', "'total'"))
    res.check("FOLD", "total accumulates the property value", ok, where(tot[0]), fi.qual, norm_stmt(tot[0])[:140],
              "the total cell is not 'previous total + this agent's value'", key="FOLD/total/update")

    # --- mean
    mean = bykey["mean"]
    okm = False
    if len(mean) == 1 and isinstance(mean[0], ast.Assign) and isinstance(mean[0].value, ast.BinOp) and isinstance(mean[0].value.op, ast.Div):
        num = _chain(mean[0].value.left, aliases)
        den = _chain(mean[0].value.right, aliases)
        okn = num is not None and num[:-1] == PCELL and key_of(num) == "total"
        okd = den is not None and den[:-1] == CELL and key_of(den) == "count"
        res.check("FOLD", "mean numerator is this property's total", okn, where(mean[0]), fi.qual, src(mean[0].value.left)[:120],
                  "the mean's numerator is not the total of the same (time, type, state, property) cell", key="FOLD/mean/numerator")
        res.check("FOLD", "mean denominator is the same cell's count", okd, where(mean[0]), fi.qual, src(mean[0].value.right)[:120],
                  "the mean divides by %s, not by the count of the same (time, type, state) cell" % src(mean[0].value.right)[:80],
                  key="FOLD/mean/denominator")
        okm = True
        res.check("FOLD", "mean computed after total and count were updated", bool(incs) and seq(mean[0]) > seq(tot[0]) and seq(mean[0]) > seq(incs[0]),
                  where(mean[0]), fi.qual, norm_stmt(mean[0])[:100], "the mean is computed before this agent's value/count went in",
                  key="FOLD/mean/order")
    if not okm:
        raise AnalysisError("mean update has an unrecognised shape")

    # --- min / max
    BUILTIN = {"min": "min", "max": "max"}
    CMP = {"max": (ast.Gt, ast.GtE), "min": (ast.Lt, ast.LtE)}
    for k in ("min", "max"):
        for n in bykey[k]:
            if not isinstance(n, ast.Assign):
                raise AnalysisError("%s cell updated by %s" % (k, type(n).__name__))
            v = n.value
            if isinstance(v, ast.Call) and isinstance(v.func, ast.Name) and v.func.id in ("min", "max"):
                res.check("FOLD", "%s cell folded with %s()" % (k, k), v.func.id == BUILTIN[k], where(n), fi.qual, src(v)[:140],
                          "the %s cell is folded with %s()" % (k, v.func.id), key="FOLD/%s/operator" % k)
                args = list(v.args)
                prev = [a for a in args if (_chain(a, aliases) or ())[:len(PCELL)] == PCELL]
                vals = [a for a in args if norm_value(a) == VALUE]
                okp = len(args) == 2 and len(prev) == 1 and key_of(_chain(prev[0], aliases)) == k and len(vals) == 1
                res.check("FOLD", "%s cell folded from its own previous value and the data" % k, okp, where(n), fi.qual, src(v)[:140],
                          "the %s cell is folded from %s" % (k, [src(a)[-40:] for a in args]), key="FOLD/%s/operands" % k)
            elif norm_value(v) == VALUE:
                # direct take-over: either the first value (cell is None) or the comparison form
                guards = [g for g in ast.walk(aloop) if isinstance(g, ast.If) and any(x is n for b in g.body for x in ast.walk(b))]
                okg = False
                for g in guards:
                    disj = g.test.values if isinstance(g.test, ast.BoolOp) and isinstance(g.test.op, ast.Or) else [g.test]
                    good = 0
                    for d in disj:
                        if isinstance(d, ast.Compare) and len(d.ops) == 1:
                            l, r = d.left, d.comparators[0]
                            chl = _chain(l, aliases)
                            if isinstance(d.ops[0], ast.Is) and isinstance(r, ast.Constant) and r.value is None and chl and chl[:len(PCELL)] == PCELL:
                                good += 1      # first value (max and min are initialised together)
                            elif norm_value(l) == VALUE and isinstance(d.ops[0], CMP[k]) and (_chain(r, aliases) or ())[:len(PCELL)] == PCELL \
                                    and key_of(_chain(r, aliases)) == k:
                                good += 1
                            elif norm_value(r) == VALUE and isinstance(d.ops[0], CMP["min" if k == "max" else "max"]) and \
                                    (_chain(l, aliases) or ())[:len(PCELL)] == PCELL and key_of(_chain(l, aliases)) == k:
                                good += 1
                    if good == len(disj) and good > 0:
                        okg = True
                res.check("FOLD", "%s takes the value when empty or beaten" % k, okg, where(n), fi.qual, norm_stmt(n)[:120],
                          "the %s cell takes the agent's value under a condition that is neither 'cell is None' nor the %s comparison" % (k, k),
                          key="FOLD/%s/takeover-guard" % k)
            else:
                res.check("FOLD", "%s cell update recognised" % k, False, where(n), fi.qual, norm_stmt(n)[:120],
                          "the %s cell is assigned %s, which is neither the agent's value nor %s(previous, value)" % (k, src(v)[:60], k),
                          key="FOLD/%s/update-shape" % k)

    # numeric filter and per-time reset
    tsets = [n for n in fn.body if isinstance(n, ast.Assign) and _chain(n.targets[0], aliases) == (ROOT, tparam)
             and isinstance(n.value, ast.Dict) and not n.value.keys]
    res.check("FOLD", "statistics of a time are rebuilt from empty", len(tsets) == 1 and seq(tsets[0]) < seq(aloop), fi.loc(), fi.qual,
              norm_stmt(tsets[0]) if tsets else "", "agent_statistics[time] is not reset before aggregating: a second collection doubles the numbers",
              key="FOLD/time-cell/reset")

    # --- whose statistics: every scenario of a hybrid manager has a collector of its own, and what is collected at the end of a step is
    # the population as it is then (the live agent list, not a list taken before the agents acted)
    from .scenarios import hybrid_fresh_rule
    hybrid_fresh_rule(idx, res)
    ncol = 0
    for fi_ in idx.all_funcs("BPTK_Py/modeling/"):
        for c_ in iter_calls(fi_.node):
            if call_name(c_) == "collect_agent_statistics" and len(c_.args) >= 2:
                ncol += 1
                live = isinstance(c_.args[1], ast.Attribute) and c_.args[1].attr == "agents"
                res.check("POP", "%s collects over the live agent list" % fi_.qual, live, fi_.loc(c_), fi_.qual, src(c_)[:90],
                          "statistics are collected over %s, not over the model's agent list as it is at that moment: agents created during the step are "
                          "missing, agents deleted during the step are still counted" % src(c_.args[1])[:50], key="POP/%s/collects-over-%s" % (fi_.qual, src(c_.args[1])[:30]))
    res.floor("collect_agent_statistics call sites", ncol, 1)
    # --- reader/writer keys
    hr = idx.func(HYBRID, "HybridRunner.run_scenario")
    sets = [n.args[0] for n in ast.walk(hr.node) if isinstance(n, ast.Call) and call_name(n) == "set" and n.args and isinstance(n.args[0], (ast.List, ast.Tuple, ast.Set))]
    sets += [n for n in ast.walk(hr.node) if isinstance(n, ast.Set) and not any(n is s0 for s0 in sets)]       # {"mean", ...}: the literal form
    expected = set()
    for s_ in sets:
        expected |= {const_str(e) for e in s_.elts}
    written = {"count"} | set(bykey)
    res.check("KEYS", "aggregate types requested by default are written", bool(expected) and expected <= written, hr.loc(), hr.qual,
              str(sorted(x for x in expected if x)), "HybridRunner asks for aggregate types %s that the collector does not write (%s)"
              % (sorted(expected - written), sorted(written)), key="KEYS/run_scenario/default-types")
    # each property_type == "X" branch stores under key "X" and reads the column of that type
    nbr = 0
    for g in ast.walk(hr.node):
        if isinstance(g, ast.If) and isinstance(g.test, ast.Compare) and src(g.test.left) == "property_type" and \
                isinstance(g.test.ops[0], ast.Eq) and const_str(g.test.comparators[0]):
            want = const_str(g.test.comparators[0])
            for st in g.body:
                for n in ast.walk(st):
                    if isinstance(n, ast.Assign) and isinstance(n.targets[0], ast.Subscript):
                        k = const_str(n.targets[0].slice)
                        if k is not None and k in ("mean", "max", "min", "total"):
                            nbr += 1
                            res.check("KEYS", "branch %s stores under '%s'" % (want, k), k == want, hr.loc(n), hr.qual, norm_stmt(n)[-120:],
                                      "the '%s' aggregate is stored under the key '%s'" % (want, k), key="KEYS/run_scenario/%s->%s" % (want, k))
                            okc = "property_type" in src(n.value) or ('"%s"' % want) in src(n.value).replace("'", '"')
                            res.check("KEYS", "branch %s reads the %s column" % (want, want), okc, hr.loc(n), hr.qual, src(n.value)[-100:],
                                      "the '%s' aggregate is filled from a column of another type" % want, key="KEYS/run_scenario/%s-column" % want)
    # generic form: <cell>[property_type] = df[... + property_type] - key and column are the same variable
    for n in ast.walk(hr.node):
        if isinstance(n, ast.Assign) and isinstance(n.targets[0], ast.Subscript) and isinstance(n.targets[0].slice, ast.Name) \
                and n.targets[0].slice.id == "property_type":
            nbr += 1
            from ..util import _written_out
            res.check("KEYS", "aggregate stored under its own type and read from that type's column", "property_type" in src(_written_out(hr.node, n.value)), hr.loc(n), hr.qual,
                      norm_stmt(n)[-120:], "the aggregate stored under [property_type] is filled from %s, which does not depend on the type" % src(n.value)[-80:],
                      key="KEYS/run_scenario/generic-column")
    res.floor("aggregate stores in HybridRunner.run_scenario", nbr, 1)        # one per result format, or one shared by the formats
    # one frame per agent type: the frames are aligned on their own time index when they are concatenated, a frame shared by several
    # agent types aligns every later column to the index of the first type (times at which that type had no agents are dropped)
    from ..util import per_iteration_objects
    nfr = 0
    for fn_ in [f for f in idx.module(HYBRID).functions.values() if f.cls == "HybridRunner"]:
        for lp_ in [x for x in walk_no_nested(fn_.node) if isinstance(x, ast.For)]:
            nfr += 1
        for lp_, name_, crea_, add_ in per_iteration_objects(fn_.node):
            res.find("KEYS", "KEYS/%s/shared-frame-%s" % (fn_.qual, name_), fn_.loc(crea_), fn_.qual, norm_stmt(crea_)[:80],
                     "%s creates %s once, before the loop over %s, and every iteration writes its columns into it and collects it: all iterations "
                     "share one frame, so the columns of later agent types are aligned to the time index of the first one"
                     % (fn_.qual, name_, src(lp_.iter)[:40] if isinstance(lp_, ast.For) else "the loop"))
    res.floor("loops of HybridRunner examined for shared per-iteration objects", nfr, 6)
    nframes = 0
    for fn_ in [f for f in idx.module(HYBRID).functions.values() if f.cls == "HybridRunner"]:
        for a_ in [n for n in walk_no_nested(fn_.node) if isinstance(n, ast.Assign) and isinstance(n.targets[0], ast.Name) and isinstance(n.value, ast.Call)
                   and call_name(n.value) == "get_df_for_agent"]:
            dname = a_.targets[0].id
            L = None
            for lp_ in ast.walk(fn_.node):
                if isinstance(lp_, ast.For) and any(x is a_ for x in ast.walk(lp_)) and (L is None or any(x is lp_ for x in ast.walk(L))):
                    L = lp_
            if L is None:
                continue
            targets_ = {n.targets[0].value.id for n in ast.walk(L) if isinstance(n, ast.Assign) and isinstance(n.targets[0], ast.Subscript)
                        and isinstance(n.targets[0].value, ast.Name) and n.targets[0].value.id != dname
                        and any(isinstance(x, ast.Name) and x.id == dname for x in ast.walk(n.value))}
            for X in sorted(targets_):
                nframes += 1
                crea = [n for n in walk_no_nested(fn_.node) if isinstance(n, ast.Assign) and isinstance(n.targets[0], ast.Name) and n.targets[0].id == X]
                inside = [c_ for c_ in crea if any(x is c_ for x in ast.walk(L))]
                res.check("KEYS", "%s: the frame %s filled per agent type is created per agent type" % (fn_.qual, X), bool(inside) or not crea, fn_.loc(crea[0]) if crea else fn_.loc(),
                          fn_.qual, norm_stmt(crea[0])[:70] if crea else "",
                          "%s fills %s with the columns of every agent type inside the loop over %s but creates it outside that loop: the columns of later "
                          "types are aligned to the time index of the first type, and times at which the first type had no agents disappear for all of them"
                          % (fn_.qual, X, src(L.iter)[:30]), key="KEYS/%s/frame-shared-by-agent-types" % fn_.qual)
    res.floor("per-agent-type frames in HybridRunner", nframes, 2)
    gdf = idx.func(HYBRID, "HybridRunner.get_df_for_agent")
    reads = [n for n in ast.walk(gdf.node) if isinstance(n, ast.Subscript) and src(n).startswith("states[column]")]
    okr = any(src(n) == "states[column][agent_property][property_type]" for n in reads) and any(
        src(n).replace("'", '"') == 'states[column]["count"]' for n in reads)
    res.check("KEYS", "frame built from states[state][property][type] and ['count']", okr, gdf.loc(), gdf.qual,
              "; ".join(sorted({src(n) for n in reads}))[:160], "the frame is not filled from the collector's cells", key="KEYS/get_df_for_agent/reads")
    # what is reported for a time is read from that time's row: nothing the per-time loop uses to decide *which* states / columns exist was
    # taken from the recorded data before the loop (the first row knows only the states that were populated then)
    dparam = params(gdf.node)[1] if len(params(gdf.node)) > 1 else "data"
    nrow = 0
    for fn_ in [gdf.node] + [x for x in ast.walk(gdf.node) if isinstance(x, ast.FunctionDef) and x is not gdf.node]:
        dnames = {dparam} | {a.arg for a in fn_.args.args if a.arg == dparam}
        for lp in [x for x in walk_no_nested(fn_) if isinstance(x, ast.For) and isinstance(x.iter, ast.Call) and call_name(x.iter) in ("items", "values")
                   and isinstance(x.iter.func.value, ast.Name) and x.iter.func.value.id in dnames]:
            nrow += 1
            before = {}
            for a in sorted([x for x in walk_no_nested(fn_) if isinstance(x, ast.Assign)], key=seq):
                if isinstance(a, ast.Assign) and len(a.targets) == 1 and isinstance(a.targets[0], ast.Name) and seq(a) < seq(lp) \
                        and not any(x is a for x in ast.walk(lp)):
                    dep = any(isinstance(x, ast.Name) and (x.id in dnames or x.id in before) for x in ast.walk(a.value))
                    if dep:
                        before[a.targets[0].id] = a
            used = [x for b_ in lp.body for x in ast.walk(b_) if isinstance(x, ast.Name) and isinstance(x.ctx, ast.Load) and x.id in before]
            res.check("KEYS", "the per-time loop of %s reads the states of its own row" % fn_.name, not used, gdf.loc(before[used[0].id]) if used else gdf.loc(lp), gdf.qual,
                      norm_stmt(before[used[0].id])[:100] if used else norm_stmt(lp)[:60],
                      "%s is worked out from the recorded data before the loop over the times (`%s`) and used for every time: a state that is empty "
                      "at the first recorded time and populated later never gets a column, its counts and aggregates are missing from every format"
                      % (used[0].id if used else "", norm_stmt(before[used[0].id])[:70] if used else ""), key="KEYS/get_df_for_agent/states-from-first-row")
    res.floor("per-time loops of get_df_for_agent", nrow, 1)
    rets = [n for n in gdf.node.body if isinstance(n, ast.Return)]
    fa = rets[-1].value if rets else None
    fv = None
    if isinstance(fa, ast.Call) and call_name(fa) == "fillna":
        fv = fa.args[0] if fa.args else next((k.value for k in fa.keywords if k.arg == "value"), None)
    okf = fv is not None and const_int(fv) == 0
    res.check("FILL", "empty states are reported as 0", okf, gdf.loc(rets[-1]) if rets else gdf.loc(), gdf.qual,
              norm_stmt(rets[-1]) if rets else "", "the frame is not zero-filled where a state was empty", key="FILL/get_df_for_agent/fillna")
