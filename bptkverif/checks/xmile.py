"""C03 (XMILE transpiler preserves meaning) and C04 (transpiled stock/flow
dynamics are Euler-exact and match the DSL): template rules over the XMILE ->
Python generator (py.py), the PEG grammar, the IR-building plugins and the
Jinja template of the generated model class."""
from __future__ import annotations

import ast
import re
import textwrap
from typing import Dict, List, Optional, Set, Tuple

from ..core import (seq, AnalysisError, FuncInfo, Index, Result, call_name, call_recv, const_str, dotted, iter_calls,
                    norm_stmt, src, walk_no_nested)
from ..nf import graft, nf, parse_expr, root_kind
from ..templates import (Hole, Lit, Opq, Parts, Path, Rep, SExt, SList, SNone, SObj, SOpq, SStr, SV, TermEval, TimeRef,
                         _Unsupported, hole_keys, ident_list, parts_text, render, role_names)
from ..util import params, single_assignments

PY = "BPTK_Py/sdcompiler/generator/py/py.py"
GRAMMAR = "BPTK_Py/sdcompiler/parsers/smile/grammar.py"
XMILE = "BPTK_Py/sdcompiler/parsers/xmile/xmile.py"
STOCKX = "BPTK_Py/sdcompiler/plugins/stockExpressions.py"
JINJA = "BPTK_Py/sdcompiler/generator/py/jinja_template.py"
SANITIZE = "BPTK_Py/sdcompiler/plugins/sanitizeNames.py"
MODEL = "BPTK_Py/modeling/model.py"

# A.1: XMILE spelling -> (python token, XMILE precedence class (1 = tightest), associativity)
XMILE_OPS = {
    "^": ("**", 1, "right"),
    "*": ("*", 3, "left"), "/": ("/", 3, "left"), "mod": ("%", 3, "left"),
    "+": ("+", 4, "left"), "-": ("-", 4, "left"),
    "<": ("<", 5, "left"), "<=": ("<=", 5, "left"), ">": (">", 5, "left"), ">=": (">=", 5, "left"),
    "=": ("==", 6, "left"), "<>": ("!=", 6, "left"),
    "and": ("and", 8, "left"), "or": ("or", 9, "left"),
}
# deterministic numeric built-ins the property names (clause 4, R3)
CLAIMED_BUILTINS = ["abs", "min", "max", "sqrt", "exp", "ln", "log10", "sin", "cos", "tan", "int", "round", "safediv", "step",
                    "if", "percent", "pulse"]
# flat infix probes: one per XMILE operator class (an argument of a built-in is an arbitrary flattened expression)
PROBES = [("atom", "self.memoize('x', t)"), ("number", "2.0"), ("negative number", "-1.0"), ("unary minus", " - p"),
          ("power", "p ** q"), ("product", "p * q"), ("quotient", "p / q"), ("modulo", "p % q"), ("sum", "p + q"),
          ("difference", "p - q"), ("comparison", "p < q"), ("equality", "p == q"), ("and", "p < q and r < s"),
          ("or", "p < q or r < s")]


class XmileEval(TermEval):
    """TermEval specialised for the idioms of py.py."""

    def __init__(self, idx: Index, fi_or_lambda, file: str, qual: str, module_funcs: Dict[str, ast.FunctionDef]):
        self.idx = idx
        self.file = file
        self.qualname = qual
        self.node = fi_or_lambda
        self.time_param = None
        self.extract_handles_element = True
        self.result_attr = None
        self.helpers = {}
        self.max_paths = 200
        self.local_defs = {}
        self.module_funcs = module_funcs
        self.depth = 0

        class _FI:
            qual = self.qualname
            cls = None
        self.fi = _FI()

    # ---- entry points ------------------------------------------------------------------
    def run_lambda(self, lam: ast.Lambda) -> List[Path]:
        p0 = Path()
        self._bind(lam.args, p0)
        ret = ast.Return(value=lam.body)
        ast.copy_location(ret, lam)
        return [p for p in self._block([ret], [p0])]

    def run_function(self, fn: ast.FunctionDef, bound: Optional[Dict[str, SV]] = None) -> List[Path]:
        p0 = Path()
        self._bind(fn.args, p0)
        if bound:
            p0.env.update(bound)
        return self._block(fn.body, [p0])

    def _bind(self, a: ast.arguments, p: Path) -> None:
        for x in a.args:
            p.env[x.arg] = SObj(x.arg)
        if a.vararg:
            p.env[a.vararg.arg] = SList(a.vararg.arg)

    # ---- statements ---------------------------------------------------------------------
    def _stmt(self, s: ast.stmt, p: Path) -> List[Path]:
        if isinstance(s, ast.Try):
            # the repository's try blocks in these helpers guard list clean-up (elem.remove(",")) or optional
            # arguments; the normal path is the body
            assigns_in_handler = any(isinstance(x, (ast.Assign, ast.Return)) for h in s.handlers for x in ast.walk(h))
            if assigns_in_handler:
                raise _Unsupported("try/except with assignments in the handler in %s" % self.qualname)
            return self._block(s.body, [p])
        if isinstance(s, ast.Expr):
            return [p]
        return super()._stmt(s, p)

    @staticmethod
    def _len_feasible(conds) -> bool:
        """Are the `len(x) OP k` constraints on the path satisfiable?"""
        rng: Dict[str, List[int]] = {}
        for c, v in conds:
            m = re.match(r"^len\((\w+)\) (==|<=|<|>=|>|!=) (\d+)$", c)
            if not m:
                continue
            nm, op, k = m.group(1), m.group(2), int(m.group(3))
            if not v:
                op = {"==": "!=", "!=": "==", "<=": ">", "<": ">=", ">=": "<", ">": "<="}[op]
            ok = rng.setdefault(nm, list(range(0, 12)))
            rng[nm] = [n for n in ok if {"==": n == k, "!=": n != k, "<=": n <= k, "<": n < k, ">=": n >= k, ">": n > k}[op]]
            if not rng[nm]:
                return False
        return True

    def _block(self, stmts, paths):
        out = super()._block(stmts, paths)
        return [p for p in out if self._len_feasible(p.conds)]

    def _none_test(self, test: ast.AST, p: Path) -> Optional[bool]:
        """x == None / x is None / x is not None / a == b == None on values the path knows."""
        if not isinstance(test, ast.Compare):
            return None
        ops = test.ops
        terms = [test.left] + list(test.comparators)
        if not (isinstance(terms[-1], ast.Constant) and terms[-1].value is None):
            return None
        if not all(isinstance(o, (ast.Eq, ast.Is)) for o in ops) and not (len(ops) == 1 and isinstance(ops[0], (ast.IsNot, ast.NotEq))):
            return None
        vals = []
        for t in terms[:-1]:
            if not isinstance(t, ast.Name) or t.id not in p.env:
                return None
            vals.append(isinstance(p.env[t.id], SNone))
        res_ = all(vals)
        if len(ops) == 1 and isinstance(ops[0], (ast.IsNot, ast.NotEq)):
            return not res_
        if all(vals) or not any(vals):
            return res_
        return False

    def _static_test(self, test: ast.AST, p: Path) -> Optional[bool]:
        nt = self._none_test(test, p)
        if nt is not None:
            return nt
        # len(x) constraints already on the path
        m = re.match(r"^len\((\w+)\) (==|<=|<|>=|>|!=) (\d+)$", src(test))
        if m:
            t_ok = self._len_feasible(p.conds + [(src(test), True)])
            f_ok = self._len_feasible(p.conds + [(src(test), False)])
            if t_ok and not f_ok:
                return True
            if f_ok and not t_ok:
                return False
        # type(x) is list / str on a value known to be text
        if isinstance(test, ast.BoolOp) and isinstance(test.op, ast.And):
            vs = [self._static_test(v, p) for v in test.values]
            if any(v is False for v in vs):
                return False
            if all(v is True for v in vs):
                return True
            return None
        if isinstance(test, ast.Compare) and len(test.ops) == 1 and isinstance(test.ops[0], ast.Is):
            l, r = test.left, test.comparators[0]
            if isinstance(l, ast.Call) and call_name(l) == "type" and isinstance(r, ast.Name) and r.id in ("list", "tuple", "dict", "str"):
                try:
                    v = self._expr(l.args[0], p)
                except _Unsupported:
                    return None
                if isinstance(v, SStr):
                    return r.id == "str"
                if isinstance(v, SList):
                    return r.id in ("list", "tuple")
        return super()._static_test(test, p)

    def _for(self, s: ast.For, p: Path) -> List[Path]:
        # clean-up loops over the argument list that do not build text
        if not any(isinstance(x, (ast.Assign, ast.AugAssign, ast.Return)) for x in ast.walk(s)):
            return [p]
        return super()._for(s, p)

    # ---- expressions ----------------------------------------------------------------------
    def _expr(self, e: Optional[ast.AST], p: Path) -> SV:
        if isinstance(e, ast.Subscript):
            base = self._expr(e.value, p)
            if isinstance(base, SList):
                if isinstance(e.slice, ast.Slice):
                    return SList(base.role)
                k = src(e.slice)
                return SObj("%s[%s]" % (base.role, k))
            if isinstance(base, SObj):
                ks = const_str(e.slice)
                if ks == "name":
                    return SOpq("name", base.role + ".name")
                if ks is None:
                    # expression[0] on a lambda parameter that is a list of arguments
                    return SObj("%s[%s]" % (base.role, src(e.slice)))
                return SOpq("expr", src(e))
        if isinstance(e, ast.Attribute):
            d = dotted(e)
            if d and d in p.env:
                return p.env[d]
            return SOpq("expr", src(e))
        if isinstance(e, ast.IfExp):
            raise _Unsupported("nested conditional expression")
        return super()._expr(e, p)

    def _call(self, e: ast.Call, p: Path) -> SV:
        n = call_name(e)
        f = e.func
        if n == "remove_nesting" and len(e.args) == 1:
            return self._expr(e.args[0], p)
        if n == "parseExpression" and len(e.args) == 1:
            v = self._expr(e.args[0], p)
            if isinstance(v, SObj):
                return SStr((Hole(v.role, None, "parse"),))
            if isinstance(v, SList):
                return SStr((Rep((Hole(v.role + "[*]", None, "parse"),), ","),))
            if isinstance(v, SStr):
                return v
            raise _Unsupported("parseExpression(%s)" % src(e.args[0]))
        if isinstance(f, ast.Attribute) and f.attr == "join" and len(e.args) == 1:
            sep = self._expr(f.value, p)
            a = e.args[0]
            if isinstance(sep, SStr) and len(sep.parts) == 1 and isinstance(sep.parts[0], Lit) and isinstance(a, (ast.ListComp, ast.GeneratorExp)):
                g = a.generators[0]
                it = self._expr(g.iter, p)
                if isinstance(it, SList) and isinstance(g.target, ast.Name):
                    q = p.fork()
                    q.env[g.target.id] = SObj(it.role + "[*]")
                    body = self._to_parts(self._expr(a.elt, q), q)
                    return SStr((Rep(body, sep.parts[0].text),))
            raise _Unsupported("join(%s)" % src(a)[:50])
        if n in ("str",) and len(e.args) == 1:
            return SStr(self._to_parts(self._expr(e.args[0], p), p))
        if n in ("int", "float", "len", "type") and isinstance(f, ast.Name):
            if n == "len" and e.args:
                a0 = self._expr(e.args[0], p)
                if isinstance(a0, SList):
                    return SOpq("len", a0.role)
            return SOpq("expr", src(e))
        if isinstance(f, ast.Name) and f.id in self.module_funcs and self.depth < 3:
            fn = self.module_funcs[f.id]
            # the dict lambdas hand their *args tuple on: f(args)
            vals = [self._expr(a, p) for a in e.args]
            bound: Dict[str, SV] = {}
            if fn.args.vararg and len(vals) == 1 and isinstance(vals[0], SList):
                bound[fn.args.vararg.arg] = vals[0]
            elif fn.args.vararg and len(vals) == 1 and isinstance(vals[0], SObj):
                bound[fn.args.vararg.arg] = SList(vals[0].role)
            else:
                for prm, v in zip(fn.args.args, vals):
                    bound[prm.arg] = v if not isinstance(v, SObj) or True else v
            self.depth += 1
            try:
                sub = XmileEval(self.idx, fn, self.file, f.id, self.module_funcs)
                sub.depth = self.depth
                paths = [q for q in sub.run_function(fn, bound) if not q.raised]
            finally:
                self.depth -= 1
            outs = [q for q in paths if isinstance(q.result, SStr)]
            if len(outs) == 1 and len(paths) == 1:
                p.conds += outs[0].conds
                return outs[0].result
            # several paths: propagate as alternatives through a marker the caller expands
            raise _Alternatives(paths)
        return super()._call(e, p)

    def _to_parts(self, v: SV, p: Path) -> Parts:
        if isinstance(v, SObj):
            # a raw argument formatted into text without parseExpression (e.g. interpolate's extra arguments)
            return (Hole(v.role, None, "raw"),)
        if isinstance(v, SList):
            return (Rep((Hole(v.role + "[*]", None, "raw"),), ","),)
        return super()._to_parts(v, p)


class _Alternatives(Exception):
    def __init__(self, paths: List[Path]):
        self.paths = paths


class XRenderer:
    def __init__(self, kind: str, name: str, conds, parts: Parts, loc: str):
        self.kind = kind          # operator | builtin
        self.name = name
        self.conds = conds
        self.parts = parts
        self.loc = loc

    @property
    def text(self) -> str:
        return parts_text(self.parts)


def py_tables(idx: Index) -> Tuple[ast.Dict, ast.Dict, Dict[str, ast.FunctionDef]]:
    m = idx.module(PY)
    tables: Dict[str, ast.Dict] = {}
    for n in m.tree.body:
        if isinstance(n, ast.Assign) and isinstance(n.targets[0], ast.Name) and n.targets[0].id in ("operators", "builtins") \
                and isinstance(n.value, ast.Dict):
            tables[n.targets[0].id] = n.value
    if set(tables) != {"operators", "builtins"}:
        raise AnalysisError("py.py: operators/builtins tables not found")
    funcs = {n.name: n for n in m.tree.body if isinstance(n, ast.FunctionDef)}
    return tables["operators"], tables["builtins"], funcs


def falsy_default_rule(idx: Index, res: Result, rule: str = "FALSY") -> int:
    """FALSY: in the generator functions of py.py a *parsed argument* may be the number 0 (parseExpression hands numeric leaves back
    as floats).  Deciding "was the optional argument given?" by the argument's truth value - `first = first or <default>`,
    `x if x else <default>`, `if not x: x = <default>` - replaces a literal 0 by the default: PULSE(v, 0, 5) starts at the start time,
    SAFEDIV(a, b, 0) ... The pinned code tests `== None`."""
    m = idx.module(PY)
    n = 0
    for q, fi in m.functions.items():
        if fi.cls or "." in q or q == "parseExpression":
            continue
        parsed: Set[str] = set()
        for _ in range(3):
            for a in walk_no_nested(fi.node):
                if isinstance(a, ast.Assign) and (any(isinstance(c, ast.Call) and call_name(c) == "parseExpression" for c in ast.walk(a.value))
                                                  or any(isinstance(x, ast.Name) and x.id in parsed for x in ast.walk(a.value))):
                    for t in a.targets:
                        for x in ast.walk(t):
                            if isinstance(x, ast.Name) and isinstance(x.ctx, ast.Store):
                                parsed.add(x.id)
        if not parsed:
            continue
        n += 1
        for b in walk_no_nested(fi.node):
            hit = None
            if isinstance(b, ast.BoolOp) and isinstance(b.op, ast.Or) and isinstance(b.values[0], ast.Name) and b.values[0].id in parsed \
                    and not isinstance(getattr(b, "_parent_test", None), ast.AST):
                hit = b.values[0].id
            if isinstance(b, ast.IfExp) and isinstance(b.test, ast.Name) and b.test.id in parsed and isinstance(b.body, ast.Name) and b.body.id == b.test.id:
                hit = b.test.id
            if isinstance(b, ast.If) and isinstance(b.test, ast.UnaryOp) and isinstance(b.test.op, ast.Not) and isinstance(b.test.operand, ast.Name) \
                    and b.test.operand.id in parsed and any(isinstance(st, ast.Assign) and any(isinstance(t, ast.Name) and t.id == b.test.operand.id for t in st.targets) for st in b.body):
                hit = b.test.operand.id
            if hit is not None:
                # a list used for its emptiness (`onzero[0] if onzero else 0` with `*onzero`) is not a parsed value but a list of them
                starred = any(isinstance(a, ast.Assign) and any(isinstance(e, ast.Starred) and isinstance(e.value, ast.Name) and e.value.id == hit
                                                               for t in a.targets if isinstance(t, (ast.Tuple, ast.List)) for e in t.elts)
                              for a in walk_no_nested(fi.node))
                if starred:
                    continue
                res.find(rule, "%s/%s/%s" % (rule, q, hit), fi.loc(b), q, src(b)[:80],
                         "%s decides whether its optional argument '%s' was given by the argument's truth value (`%s`): a literal 0 is a parsed "
                         "argument too, and is replaced by the default" % (q, hit, src(b)[:60]))
    return n


def generated_memoize_snaps(methods: Dict[str, ast.FunctionDef], res: Result, rule: str) -> None:
    """SNAP: the generated model's memoize() puts every time that is a grid point up to rounding noise onto the grid
    (starttime + round((t - starttime) / dt) * dt) before it looks the time up: chains t - dt - dt ... drift, `t <= self.starttime`
    then fails one step late and the stock takes an extra Euler step.  The snapping runs for every float time of every run: it may be
    skipped for non-floats, for dt == 0 and for times that are not near a grid point - not under a flag computed earlier from a dt
    (the run specs of a scenario replace dt after construction) or for "exact" dts (the start time need not be exact)."""
    from ..util import nesting_atoms
    mm = methods.get("memoize")
    if mm is None:
        raise AnalysisError("memoize not found in the Jinja template")
    ps = [a.arg for a in mm.args.args]
    tp = ps[2] if len(ps) > 2 else "arg"
    snaps = []
    for n in ast.walk(mm):
        if isinstance(n, ast.Assign) and len(n.targets) == 1 and isinstance(n.targets[0], ast.Name) and n.targets[0].id == tp:
            snaps.append(n)
    res.check(rule, "generated memoize() snaps the time onto the grid", bool(snaps), "%s (template)" % JINJA, "jinja:simulation_model.memoize",
              src(snaps[0])[:80] if snaps else "", "the generated memoize() no longer replaces a time by its grid point", key="%s/jinja:memoize/missing" % rule)
    for st in snaps:
        extra = []
        for a, t in nesting_atoms(mm, st):
            txt = src(a)
            if isinstance(a, ast.Call) and call_name(a) == "isinstance" and a.args and src(a.args[0]) == tp and t:
                continue
            if txt in ("self.dt",) and t:
                continue
            if isinstance(a, ast.Compare) and len(a.ops) == 1 and src(a.left) == "self.dt" and isinstance(a.comparators[0], ast.Constant) and a.comparators[0].value == 0:
                continue
            if isinstance(a, ast.Compare) and any(isinstance(c, ast.Call) and call_name(c) == "abs" for c in ast.walk(a)):
                continue
            # a test on the time itself, on what was just computed from it, or on the kind of dt / starttime chooses between ways of
            # snapping; what must not decide is state kept on the object besides dt and starttime (a flag worked out earlier)
            other_state = [x for x in ast.walk(a) if isinstance(x, ast.Attribute) and isinstance(x.value, ast.Name) and x.value.id == "self"
                           and x.attr not in ("dt", "starttime")]
            if not other_state:
                continue
            extra.append("%s is %s" % (txt, t))
        res.check(rule, "the snapping runs for every float time", not extra, "%s (template)" % JINJA, "jinja:simulation_model.memoize", "; ".join(extra)[:100] or src(st)[:80],
                  "the generated memoize() snaps times onto the grid only when %s: whenever that does not hold for the dt and start time a run "
                  "actually uses (run specs are replaced after construction; a start time need not be exactly representable) the drifting chain "
                  "t - dt - dt ... misses `t <= starttime` and the stock takes an extra Euler step" % " and ".join(extra),
                  key="%s/jinja:memoize/conditional" % rule)


def _parse_expression(idx: Index) -> FuncInfo:
    """parseExpression with locals that merely name a read of its parameter (kind = type(expression), node_type = expression["type"])
    written out: the rules are phrased over the tests on the parameter."""
    import dataclasses
    from ..util import write_out_param_reads
    fi = idx.func(PY, "parseExpression")
    return dataclasses.replace(fi, node=write_out_param_reads(fi.node))


def extract_py(idx: Index, res: Optional[Result] = None) -> Tuple[List[XRenderer], Dict[str, str]]:
    """Templates of every entry of py.operators and py.builtins; second value: name -> reason for entries not extracted."""
    ops, bis, funcs = py_tables(idx)
    out: List[XRenderer] = []
    skipped: Dict[str, str] = {}
    for kind, table in (("operator", ops), ("builtin", bis)):
        for k, v in zip(table.keys, table.values):
            name = const_str(k)
            if name is None:
                raise AnalysisError("py.%s: non-literal key" % kind)
            loc = "%s:%d" % (PY, v.lineno)
            if isinstance(v, ast.Subscript) and dotted(v.value) == "operators":
                alias = const_str(v.slice)
                for r in [r for r in out if r.kind == "operator" and r.name == alias]:
                    out.append(XRenderer(kind, name, r.conds, r.parts, loc))
                continue
            if not isinstance(v, ast.Lambda):
                skipped[name] = "not a lambda"
                continue
            ev = XmileEval(idx, v, PY, "%s[%r]" % (kind, name), funcs)
            try:
                try:
                    paths = ev.run_lambda(v)
                except _Alternatives as alt:
                    paths = alt.paths
                got = 0
                for p in paths:
                    if p.raised:
                        continue
                    if isinstance(p.result, SStr):
                        out.append(XRenderer(kind, name, p.conds, p.result.parts, loc))
                        got += 1
                    elif isinstance(p.result, (SOpq, SObj)):
                        pass          # returns a number / passes an argument through (size_)
                if got == 0:
                    skipped[name] = "no text-valued return path"
            except AnalysisError as e:
                skipped[name] = str(e)[:100]
    return out, skipped


def _r1_builtin(r: XRenderer, rep_n: int = 1):
    names = role_names(r.parts)
    base = render(r.parts, "t", names, rep_n=rep_n)
    try:
        base_tree = parse_expr(base)
    except SyntaxError:
        if r.name in CLAIMED_BUILTINS:
            raise AnalysisError("template of %s[%r] does not parse: %r" % (r.kind, r.name, base))
        return
    for ident, hole in ident_list(r.parts, names, rep_n):
        if hole.via != "parse":
            continue
        for label, utext in PROBES:
            sub = render(r.parts, "t", names, rep_n=rep_n, subst={ident: utext})
            try:
                safe = nf(parse_expr(sub)) == nf(graft(base_tree, {ident: parse_expr(utext)}))
            except SyntaxError:
                safe = False
            yield ident, hole, label, utext, safe, sub


def _grammar_spellings(idx: Index) -> Dict[str, Set[str]]:
    """Operator spellings the PEG grammar can emit, read from the grammar string's rules."""
    m = idx.module(GRAMMAR)
    gtext = None
    for n in ast.walk(m.tree):
        if isinstance(n, ast.Call) and call_name(n) == "Grammar" and n.args and isinstance(n.args[0], ast.Constant):
            gtext = n.args[0].value
    if gtext is None:
        raise AnalysisError("grammar.py: Grammar(...) literal not found")
    rules = {}
    for line in gtext.splitlines():
        mm = re.match(r"\s*(\w+)\s*=\s*(.*)$", line)
        if mm:
            rules[mm.group(1)] = mm.group(2)
    out: Dict[str, Set[str]] = {}
    for rule in ("AdditiveOperator", "MultiplicativeOperator", "ComparisonOperator", "BooleanOperator"):
        if rule not in rules:
            raise AnalysisError("grammar rule %s vanished" % rule)
        body = rules[rule]
        lits = set(re.findall(r"'([^']+)'", body))
        lits |= {x.lower() for x in re.findall(r'~"([A-Za-z]+)"i', body)}
        if "Asterisk" in body:
            lits.add("*")
        for kw in ("and", "or"):
            if re.search(r"\b%s\b" % kw, body):
                lits.add(kw)
        out[rule] = lits
    if "Not" in rules:
        out["Not"] = {"not"}
    return out


def check_c03(idx: Index, tier: str, res: Result) -> None:
    res.explanation = ("Decides six clauses that together cover every program of the supported grammar: (1) every operator spelling the "
                       "PEG grammar can emit has an entry in py.operators mapping to the Python token of the XMILE reference table, "
                       "operands in source order; (2) binary operator templates are exactly 'H1 <op> H2' without parentheses, so the "
                       "emitted text is the source token sequence with operators renamed, and meaning is preserved iff Python's "
                       "precedence/associativity agrees with XMILE's for every ordered operator pair - compared with CPython's parser; "
                       "(3) IR operator literals built by plugins keep compound operands in '()' nodes; (4) every sub-expression hole "
                       "of every built-in template is safe against flat infix arguments of each operator class, and the deterministic "
                       "numeric built-ins match reference shapes; (5) unknown functions fail as loudly as unknown operators; (6) every "
                       "identifier stored into the IR is passed through sanitizeName.")
    res.rules = ["VOCAB: grammar spellings vs operators table vs reference mapping", "FLAT: shape of the binary templates",
                 "PREC: pairwise precedence/associativity, Python vs XMILE", "IRLIT: hole-safety of plugin-built IR literals", "PAREN: a parenthesised sentence reaches the generator inside a '()' node", "LEAF: number/text leaves pass through unchanged",
                 "R1: built-in argument holes vs flat infix probes", "R3: reference shapes of the numeric built-ins",
                 "LOUD: sibling contradiction call/operator branch", "NAMES: who-must-call sanitizeName"]
    res.not_decided = ["that sanitizeName identifies exactly the spellings XMILE treats as equal (a function over strings)",
                       "distributions of the stochastic built-ins", "array built-ins and array expansion",
                       "built-ins whose generator function the extractor does not understand (listed in the evidence)"]
    res.assumptions = ["CPython's parser", "XMILE 1.0 section 3.3.1 operator table (encoded in the checker)", "real arithmetic for + - * /"]
    res.floor("generator functions scanned for defaults taken by truth value", falsy_default_rule(idx, res), 20)
    renderers, skipped = extract_py(idx, res)
    ops = {r.name: r for r in renderers if r.kind == "operator"}
    res.floor("operator templates", len(ops), 17)
    res.floor("built-in templates extracted", len({r.name for r in renderers if r.kind == "builtin"}), 60)
    res.extra["builtins_not_extracted"] = skipped
    for name in CLAIMED_BUILTINS:
        if name not in {r.name for r in renderers if r.kind == "builtin"}:
            raise AnalysisError("the generator for the built-in %r could not be extracted: %s" % (name, skipped.get(name)))

    # ---- (1) vocabulary ----------------------------------------------------------------------------------------
    spell = _grammar_spellings(idx)
    emitted = set().union(*spell.values()) | {"()"}
    for s in sorted(emitted):
        res.check("VOCAB", "grammar spelling %r has an operator entry" % s, s in ops, "%s" % GRAMMAR, "grammar", s,
                  "the grammar can emit the operator %r but py.operators has no entry for it: such equations raise 'Unknown Operator'" % s,
                  key="VOCAB/missing/%s" % s)
    binary = {}
    for r in [x for x in renderers if x.kind == "operator"]:       # every path of every operator's renderer
        holes = [h for _, h in hole_keys(r.parts)]
        if len(holes) == 2:
            binary.setdefault(r.name, []).append(r)
        elif r.name in XMILE_OPS:
            binary.setdefault(r.name, [])
            res.check("VOCAB", "operator %r is binary on every path" % r.name, False, r.loc, "operators[%r]" % r.name, r.text[:80],
                      "one way operator %r is rendered does not have two operands: %s" % (r.name, r.text[:80]), key="VOCAB/%s/arity" % r.name)
    for name, (tok, cls, assoc) in XMILE_OPS.items():
        if not binary.get(name):
            res.check("VOCAB", "operator %r is binary" % name, False, PY, "operators", name, "operator %r has no two-operand template" % name,
                      key="VOCAB/%s/arity" % name)
            continue
        for r in binary[name]:
            names = {"lhs": "L", "rhs": "R"}
            roles = [role for role, _ in hole_keys(r.parts)]
            nm = {roles[0]: "L", roles[1]: "R"}
            txt = render(r.parts, "t", nm)
            ok = " ".join(txt.split()) == "L %s R" % tok
            res.check("FLAT", "%r -> 'L %s R'" % (name, tok), ok, r.loc, "operators[%r]" % name, txt,
                      "the XMILE operator %r is emitted as %r; the reference mapping is 'L %s R' with operands in source order and no "
                      "parentheses (flattening must preserve the token sequence)" % (name, txt, tok), key="FLAT/%s" % name)
            want_roles = ["lhs", "rhs"]
            res.check("FLAT", "%r operands in source order" % name, roles == want_roles, r.loc, "operators[%r]" % name, str(roles),
                      "operands of %r are emitted in the order %s" % (name, roles), key="FLAT/%s/order" % name)
    # every way the '()' node is rendered (a renderer with several paths gives several templates): parentheses on each, except
    # where the path is taken only for IR kinds that are self-delimiting text (identifier / call) - a number is not: the grammar
    # folds a leading '-' into the literal, so ( -3 ) ^ 2 without its parentheses is -3.0 ** 2.0
    pars = [r for r in renderers if r.kind == "operator" and r.name == "()"]
    par = ops.get("()")
    ok = bool(pars)
    bad_par = None
    for r_ in pars:
        txt_ = "".join(render(r_.parts, "t", {role: "B" for role, _ in hole_keys(r_.parts)}).split())
        ctext = " ".join(str(c) for c in (r_.conds or []))
        self_delimiting_only = ("identifier" in ctext or "call" in ctext) and not any(w in ctext for w in ("float", "int", "number"))
        if txt_ != "(B)" and not (txt_ == "B" and self_delimiting_only):
            ok, bad_par = False, r_
    res.check("FLAT", "'()' -> '( B )' on every path", ok, (bad_par or par).loc if (bad_par or par) else PY, "operators['()']", (bad_par or par).text if (bad_par or par) else "",
              "the parenthesis node does not emit parentheses%s" % ((" when " + " and ".join(str(c) for c in bad_par.conds)[:120]) if bad_par is not None and bad_par.conds else ""),
              key="FLAT/()")
    nt = ops.get("not")
    ok = nt is not None and "".join(render(nt.parts, "t", {role: "B" for role, _ in hole_keys(nt.parts)}).split()) == "(notB)"
    res.check("FLAT", "'not' -> '(not B)'", ok, nt.loc if nt else PY, "operators['not']", nt.text if nt else "", "NOT is not emitted as a parenthesised 'not'",
              key="FLAT/not")

    # ---- (2) pairwise precedence -----------------------------------------------------------------------------------
    npairs = 0
    mism: Dict[str, Tuple[str, str, str]] = {}
    for n1, (t1, c1, a1) in XMILE_OPS.items():
        for n2, (t2, c2, a2) in XMILE_OPS.items():
            if not binary.get(n1) or not binary.get(n2):
                continue
            # boolean operators join comparisons in the grammar; arithmetic/comparison operands are atoms here
            text = "a %s b %s c" % (t1, t2)
            if c1 >= 8 or c2 >= 8:
                if not (c1 >= 8 and c2 >= 8):
                    continue
                text = "a < a1 %s b < b1 %s c < c1" % (t1, t2)
            try:
                tree = parse_expr(text)
            except SyntaxError:
                raise AnalysisError("probe %r does not parse" % text)
            # XMILE grouping
            if c1 < c2 or (c1 == c2 and a1 == "left") or (c1 != c2 and c1 < c2):
                want = "(a %s b) %s c" % (t1, t2)
            else:
                want = "a %s (b %s c)" % (t1, t2)
            if c1 > c2:
                want = "a %s (b %s c)" % (t1, t2)
            if c1 >= 8:
                want = want.replace("a ", "(a < a1) ", 1).replace(" b", " (b < b1)", 1).replace(" c", " (c < c1)", 1) if False else None
                w1 = "((a < a1) %s (b < b1)) %s (c < c1)" % (t1, t2) if (c1 < c2 or c1 == c2) else "(a < a1) %s ((b < b1) %s (c < c1))" % (t1, t2)
                want = w1
            npairs += 1
            same = nf(tree) == nf(parse_expr(want))
            kind = "%s~%s" % ("cmp" if c1 in (5, 6) else n1, "cmp" if c2 in (5, 6) else n2)
            res.ob("PREC", "%s then %s: Python groups as XMILE" % (n1, n2), same)
            if not same:
                mism.setdefault(kind, (text, want, n1 + " " + n2))
    for kind, (text, want, pair) in sorted(mism.items()):
        res.find("PREC", "PREC/%s/python-groups-differently" % kind, PY, "operators", text,
                 "the flattened text '%s' is grouped by XMILE as '%s' but Python %s (first pair: %s); the grammar lets these stand "
                 "adjacent without parentheses (through 'Term AdditiveOperator Sentence')" % (
                     text, want, "chains the comparisons (a < b and b < c)" if "cmp~cmp" in kind else "groups it differently", pair))
    res.floor("operator pairs compared", npairs, 140)

    # ---- (3) IR literals built by plugins ----------------------------------------------------------------------------------
    _ir_literals(idx, res, binary, ops)

    # ---- (4) built-in holes and shapes ------------------------------------------------------------------------------------------
    nholes = 0
    unsafe: Dict[Tuple[str, str, str], Tuple[XRenderer, str, str]] = {}
    for r in renderers:
        if r.kind != "builtin":
            continue
        per_role: Dict[str, bool] = {}
        has_join = any(isinstance(x, Rep) and x.sep != "," for x in r.parts)
        for rep_n in ((1, 2) if has_join else (1,)):
            for ident, hole, label, utext, safe, sub in _r1_builtin(r, rep_n):
                nholes += 1
                per_role[hole.role] = per_role.get(hole.role, True) and safe
                if not safe:
                    unsafe.setdefault((r.name, hole.role, label), (r, utext, sub))
        for role, ok in per_role.items():
            res.ob("R1", "builtin %s: argument %s in '%s'" % (r.name, role, r.text[:60]), ok)
    grouped: Dict[Tuple[str, str], List[str]] = {}
    ARRAY_BUILTINS = {"sum", "prod", "mean", "stddev", "size", "rank", "interpolate"}
    for (name, role, label), (r, utext, sub) in unsafe.items():
        if name in ARRAY_BUILTINS:
            res.note("array built-in %s: argument %s unsafe for a %s argument (array built-ins are outside the decided vocabulary)" % (name, role, label))
            continue
        grouped.setdefault((name, role), []).append(label)
    for (name, role), labels in sorted(grouped.items()):
        r, utext, sub = unsafe[(name, role, labels[0])]
        res.find("R1", "R1/builtins.%s/%s" % (name, role), r.loc, "builtins[%r]" % name, "template %s" % r.text[:120],
                 "argument '%s' of %s is spliced without parentheses: with a %s argument (%s) the generated text is %s, which Python groups "
                 "differently from XMILE's %s(%s) (unsafe for: %s)" % (role, name.upper(), labels[0], utext.strip(), sub.strip()[:110], name.upper(),
                                                                   utext.strip(), ", ".join(labels)))
    res.floor("built-in argument probes", nholes, 1200)
    # a built-in's text is itself spliced into operator templates: it must behave like an atom there
    nself = 0
    for r in renderers:
        if r.kind != "builtin":
            continue
        names = role_names(r.parts)
        for rep_n in (1, 2):
            txt = render(r.parts, "t", {k: "u%d" % i for i, k in enumerate(names)}, rep_n=rep_n)
            try:
                inner = parse_expr(txt)
            except SyntaxError:
                continue
            bad = None
            for opname in ("*", "-", "^"):
                o = binary[opname][0]
                roles = [role for role, _ in hole_keys(o.parts)]
                nm = {roles[0]: "L", roles[1]: "R"}
                base = parse_expr(render(o.parts, "t", nm))
                for side in ("L", "R"):
                    sub = render(o.parts, "t", nm, subst={side: txt})
                    try:
                        if nf(parse_expr(sub)) != nf(graft(base, {side: inner})):
                            bad = sub
                    except SyntaxError:
                        bad = sub
            nself += 1
            res.check("R1", "builtin %s text '%s' is self-delimiting" % (r.name, " ".join(txt.split())[:50]), bad is None, r.loc, "builtins[%r]" % r.name,
                      " ".join(txt.split())[:120], "the text generated for %s is not self-delimiting: as an operand it gives '%s', which Python groups "
                      "across the built-in's boundary" % (r.name.upper(), " ".join((bad or "").split())[:120]), key="R1/builtins.%s/not-self-delimiting" % r.name)
    res.floor("built-in renderings checked as operands", nself, 150)
    _builtin_shapes(res, renderers)

    _time_shift_builtins(idx, res)
    res.floor("argument-list comprehensions in the built-in adapters", _arg_filters(idx, res, "ARGS"), 6)
    _paren_nodes(idx, res)

    # ---- (5) loud failure --------------------------------------------------------------------------------------------------------
    pe = _parse_expression(idx)
    branches = {}
    for n in walk_no_nested(pe.node):            # a sequence of ifs or an if/elif chain
        if isinstance(n, ast.If) and isinstance(n.test, ast.Compare) and 'expression["type"]' in src(n.test).replace("'", '"') \
                and const_str(n.test.comparators[0]) not in branches:
            # the branch is the body of the if only (an elif chain hangs the next kinds below its orelse)
            branches[const_str(n.test.comparators[0])] = ast.If(test=n.test, body=n.body, orelse=[])
            ast.copy_location(branches[const_str(n.test.comparators[0])], n)
    for kind in ("call", "operator"):
        if kind not in branches:
            raise AnalysisError("parseExpression: %s branch not found" % kind)
    def key_error_action(n: ast.If) -> str:
        for h in [h for t in ast.walk(n) if isinstance(t, ast.Try) for h in t.handlers]:
            if h.type is not None and "KeyError" in src(h.type):
                if any(isinstance(x, ast.Raise) for x in ast.walk(h)):
                    return "raise"
                rets = [x for x in ast.walk(h) if isinstance(x, ast.Return)]
                if rets:
                    return "return %s" % src(rets[0].value)
        return "none"
    a_call, a_op = key_error_action(branches["call"]), key_error_action(branches["operator"])
    res.check("LOUD", "unknown operator raises", a_op == "raise", pe.loc(branches["operator"]), pe.qual, a_op, "an unknown operator does not raise",
              key="LOUD/parseExpression/operator-branch")
    res.check("LOUD", "unknown function raises like an unknown operator", a_call == "raise", pe.loc(branches["call"]), pe.qual, a_call,
              "the 'call' branch answers an unknown function name with %s (and a log line) where the sibling 'operator' branch raises: an "
              "equation outside the supported vocabulary evaluates to a constant instead of failing" % a_call,
              key="LOUD/parseExpression/call-branch-returns-constant")

    # ---- leaves: numbers and already-rendered / empty text pass through parseExpression unchanged -----------------------------------------
    pparam = params(pe.node)[0]
    from ..util import deref as _deref0
    nleaf = 0
    for n in pe.node.body:
        if isinstance(n, ast.If) and any(isinstance(x, ast.Name) and x.id in ("str", "float", "int") for x in ast.walk(n.test)) \
                and any(isinstance(y, ast.Name) and y.id == pparam for x in ast.walk(n.test) for y in (ast.walk(_deref0(pe.node, x)) if isinstance(x, ast.Name) else [x])) \
                and not any(isinstance(x, ast.Constant) and isinstance(x.value, str) for x in ast.walk(n.test)):
            for r_ in [x for x in n.body if isinstance(x, ast.Return)]:
                nleaf += 1
                res.check("LEAF", "parseExpression returns a %s leaf unchanged" % "/".join(sorted({x.id for x in ast.walk(n.test) if isinstance(x, ast.Name) and x.id in ("str", "float", "int")})),
                          isinstance(r_.value, ast.Name) and r_.value.id == pparam, pe.loc(r_), pe.qual, norm_stmt(r_)[:80],
                          "parseExpression rewrites a leaf (%s): the grammar encodes unary minus as a binary '-' whose left operand is the empty string, so an "
                          "empty leaf that becomes '0' turns `a * -b` into `a * 0 - b`" % norm_stmt(r_)[:60], key="LEAF/parseExpression/%s" % norm_stmt(r_)[:40])
    res.floor("leaf branches of parseExpression", nleaf, 1)

    # ---- every variable owns its syntax tree: makeExpressionAbsolute edits the tree in place ---------------------------------------------
    from ..util import deref as _deref
    px = idx.func(XMILE, "parse_xmile")
    nabs = 0
    for c in [c for c in iter_calls(px.node, into_nested=True) if call_name(c) == "makeExpressionAbsolute"]:
        if len(c.args) < 2:
            continue
        nabs += 1
        tree_arg = _deref(px.node, c.args[1])
        ok = isinstance(tree_arg, ast.Call) and call_name(tree_arg) in ("visit", "parse", "deepcopy", "copy")
        res.check("NAMES", "parse_xmile hands makeExpressionAbsolute a freshly parsed tree", ok, px.loc(c), px.qual, src(c.args[1])[:70],
                  "the tree given to makeExpressionAbsolute is %s, not the result of parsing this variable's own text: makeExpressionAbsolute writes "
                  "the model prefix into the tree in place, so variables that share a tree (same equation text in another module) all refer to "
                  "the first module's variables" % src(c.args[1])[:60], key="NAMES/parse_xmile/shared-tree")
    res.floor("makeExpressionAbsolute call sites in parse_xmile", nabs, 1)

    # ---- (6) names -----------------------------------------------------------------------------------------------------------------
    gm = idx.module(GRAMMAR)
    nn = 0
    for q, fi in gm.functions.items():
        if fi.cls != "SMILEVisitor":
            continue
        for d in [n for n in walk_no_nested(fi.node) if isinstance(n, ast.Dict)]:
            m = {const_str(k): v for k, v in zip(d.keys, d.values)}
            t = const_str(m.get("type", ast.Constant(0)))
            if t in ("identifier", "label", "call") and "name" in m and fi.node.name not in ("visit_ConditionalExpression", "visit_SpecialFunction", "visit_Clocktime"):
                nn += 1
                ok = isinstance(m["name"], ast.Call) and call_name(m["name"]) == "sanitizeName"
                res.check("NAMES", "%s sanitises the %s name" % (fi.node.name, t), ok, fi.loc(d), fi.qual, src(m["name"])[:60],
                          "%s stores the %s name %s into the IR without sanitizeName: spellings of one variable that differ in spaces, "
                          "underscores, quoting or case map to different memo keys" % (fi.node.name, t, src(m["name"])[:50]),
                          key="NAMES/%s/%s" % (fi.node.name, t))
    pent = idx.func(XMILE, "parse_entity")
    for fld in ("inflows", "outflows", "name"):
        stores = [n for n in walk_no_nested(pent.node) if (isinstance(n, ast.AugAssign) and src(n.target) == fld) or
                  (isinstance(n, ast.Assign) and src(n.targets[0]) == fld and not isinstance(n.value, (ast.List, ast.Constant)))]
        for st in stores:
            nn += 1
            def branches(e):
                if isinstance(e, ast.IfExp):
                    return branches(e.body) + branches(e.orelse)
                if isinstance(e, ast.Constant) or (isinstance(e, (ast.List, ast.Tuple)) and not e.elts):
                    return []           # the default for an absent tag
                return [e]
            leaves = [c for c in ast.walk(st.value) if isinstance(c, ast.Call) and call_name(c) == "make_name_absolute"] or branches(st.value)
            ok = True
            for lf in leaves:
                par_ok = any(isinstance(c, ast.Call) and call_name(c) == "sanitizeName" and any(x is lf for x in ast.walk(c)) for c in ast.walk(st.value)) \
                    or (isinstance(lf, ast.ListComp) and isinstance(lf.elt, ast.Call) and call_name(lf.elt) == "sanitizeName")
                ok = ok and par_ok
            res.check("NAMES", "parse_entity sanitises %s" % fld, ok, pent.loc(st), pent.qual, norm_stmt(st)[:110],
                      "parse_entity stores %s without sanitizeName" % fld, key="NAMES/parse_entity/%s" % fld)
    hc = idx.func(XMILE, "extract_connects.handle_connect")
    rets = [n for n in walk_no_nested(hc.node) if isinstance(n, ast.Return) and isinstance(n.value, ast.Dict)]
    ok = bool(rets) and all(isinstance(x, ast.Call) and call_name(x) == "sanitizeName" for r_ in rets for x in list(r_.value.keys) + list(r_.value.values))
    nn += 1
    res.check("NAMES", "connects are sanitised on both ends", ok, hc.loc(), hc.qual, norm_stmt(rets[0])[:100] if rets else "", "connect names are stored unsanitised",
              key="NAMES/handle_connect")
    ma = idx.func("BPTK_Py/sdcompiler/plugins/makeAbsolute.py", "makeExpressionAbsolute")
    ok = any(isinstance(n, ast.Assign) and 'expression["name"]' in src(n.targets[0]).replace("'", '"') and "sanitizeName(model_name)" in src(n.value)
             for n in walk_no_nested(ma.node))
    nn += 1
    res.check("NAMES", "model prefix is sanitised when names are made absolute", ok, ma.loc(), ma.qual, "sanitizeName(model_name) + '.' + name",
              "makeExpressionAbsolute prefixes identifiers with an unsanitised model name", key="NAMES/makeExpressionAbsolute")
    res.floor("name-storing sites", nn, 9)
    # identifiers are emitted as memo lookups at t
    idb = [n for n in pe.node.body if isinstance(n, ast.If) and "identifier" in src(n.test) and "==" in src(n.test)]
    rets = [x for b in idb for x in ast.walk(b) if isinstance(x, ast.Return)]
    ok = bool(rets) and any("self.memoize" in src(r_.value) and ", t)" in src(r_.value) for r_ in rets)
    res.check("NAMES", "an identifier is emitted as self.memoize('<name>', t)", ok, pe.loc(), pe.qual, src(rets[-1].value)[:80] if rets else "",
              "identifiers are not emitted as memo lookups at t", key="NAMES/parseExpression/identifier")


# ---------------------------------------------------------------------------
# explicit parentheses survive the PEG visitor
# ---------------------------------------------------------------------------

def _arg_filters(idx: Index, res: Result, rule: str) -> int:
    """ARGS: the adapters of the variadic built-ins (SUM, MIN, MAX, ...) render every argument.  A filter in the comprehension
    that walks the argument list may remove separator *strings* only: a test of the argument's truth value (or against a number)
    also removes a literal 0 - MAX(0, x), which is what a non-negative flow is turned into, would lose its floor."""
    n = 0
    for q, fi in idx.module(PY).functions.items():
        if fi.cls or "." in q:
            continue
        for comp in [c for c in ast.walk(fi.node) if isinstance(c, (ast.ListComp, ast.GeneratorExp)) and len(c.generators) == 1]:
            g = comp.generators[0]
            if not (isinstance(g.target, ast.Name) and any(isinstance(x, ast.Call) and call_name(x) == "parseExpression" for x in ast.walk(comp.elt))):
                continue
            n += 1
            var = g.target.id
            bad = None
            for cond in g.ifs:
                atoms = []
                stack = [cond]
                while stack:
                    e = stack.pop()
                    if isinstance(e, ast.BoolOp):
                        stack.extend(e.values)
                    elif isinstance(e, ast.UnaryOp) and isinstance(e.op, ast.Not):
                        stack.append(e.operand)
                    else:
                        atoms.append(e)
                for a in atoms:
                    ok_atom = isinstance(a, ast.Compare) and len(a.ops) == 1 and isinstance(a.left, ast.Name) and a.left.id == var and (
                        (isinstance(a.ops[0], (ast.Eq, ast.NotEq)) and const_str(a.comparators[0]) is not None) or
                        (isinstance(a.ops[0], (ast.In, ast.NotIn)) and (
                            (isinstance(a.comparators[0], (ast.Tuple, ast.List, ast.Set)) and all(const_str(x) is not None for x in a.comparators[0].elts))
                            or (isinstance(a.comparators[0], ast.Constant) and isinstance(a.comparators[0].value, str)))))
                    if not ok_atom and any(isinstance(x, ast.Name) and x.id == var for x in ast.walk(a)):
                        bad = a
            res.check(rule, "%s renders every argument" % q, bad is None, fi.loc(comp), fi.qual, src(comp)[:100],
                      "%s drops the arguments for which `%s` fails: that test is not a comparison with a separator string, so it also removes "
                      "numeric arguments such as a literal 0 (MAX(0, x) loses its floor)" % (q, src(bad)[:50] if bad is not None else ""),
                      key="%s/%s/argument-filter" % (rule, q))
    return n


def _paren_nodes(idx: Index, res: Result) -> None:
    """PAREN: the generator flattens the IR to text, so a parenthesised sentence keeps its grouping only through the '()' node that
    SMILEVisitor.visit_Atom builds around it.  On the parenthesised branch every return is that node; a bare return is accepted
    only under a guard that admits nothing but self-delimiting IR (identifier / call dicts).  Numbers are not: the grammar's
    ``significant`` rule accepts a leading '-', and parseExpression emits numbers as they are, so (-3)^2 would become -3.0**2."""
    fi = idx.func(GRAMMAR, "SMILEVisitor.visit_Atom")
    branch = [n for n in fi.node.body if isinstance(n, ast.If) and "visited_children[0]" in src(n.test) and "list" in src(n.test)]
    if len(branch) != 1:
        raise AnalysisError("visit_Atom: parenthesised branch (type(visited_children[0]) == list) not found")
    br = branch[0]
    sent = None
    for n in br.body:
        if isinstance(n, ast.Assign) and isinstance(n.targets[0], ast.Tuple) and len(n.targets[0].elts) == 3 and "visited_children[0]" in src(n.value):
            sent = src(n.targets[0].elts[1])
    if sent is None:
        raise AnalysisError("visit_Atom: '_, Sentence, _ = visited_children[0]' not found")
    gm = idx.module(GRAMMAR)
    gtext = " ".join(c.value for c in ast.walk(gm.tree) if isinstance(c, ast.Constant) and isinstance(c.value, str) and "NumericLiteral" in c.value)
    m = re.search(r"^\s*significant\s*=\s*(.+)$", gtext, flags=re.M)
    if not m:
        raise AnalysisError("grammar rule 'significant' vanished")
    signed = "'-'" in m.group(1) or '"-"' in m.group(1)

    def admitted(test: ast.AST) -> Set[str]:
        alts = test.values if isinstance(test, ast.BoolOp) and isinstance(test.op, ast.Or) else [test]
        kinds: Set[str] = set()
        for a in alts:
            txt = src(a)
            strs = {c.value for c in ast.walk(a) if isinstance(c, ast.Constant) and isinstance(c.value, str)}
            names = {x.id for x in ast.walk(a) if isinstance(x, ast.Name)}
            if names & {"float", "int"}:
                kinds.add("number")
            elif strs & {"identifier", "call"} and "type" in strs and any(isinstance(c, ast.Compare) and isinstance(c.ops[0], (ast.Eq, ast.In)) for c in ast.walk(a)):
                kinds |= strs & {"identifier", "call"}
            else:
                kinds.add("anything (%s)" % txt[:40])
        return kinds

    def visit(stmts, guards):
        for st in stmts:
            if isinstance(st, ast.Return):
                yield st, guards
            elif isinstance(st, ast.If):
                yield from visit(st.body, guards + [st.test])
                yield from visit(st.orelse, guards + [None])
            elif isinstance(st, (ast.For, ast.While, ast.With, ast.Try)):
                raise AnalysisError("visit_Atom: unexpected control flow on the parenthesised branch")
    nret = 0
    for ret, guards in visit(br.body, []):
        nret += 1
        v = ret.value
        if isinstance(v, ast.Dict):
            mm = {const_str(k): val for k, val in zip(v.keys, v.values)}
            ok = const_str(mm.get("name", ast.Constant(0))) == "()" and const_str(mm.get("type", ast.Constant(0))) == "operator" and \
                isinstance(mm.get("args"), ast.List) and [src(e) for e in mm["args"].elts] == [sent]
            res.check("PAREN", "visit_Atom wraps a parenthesised sentence in a '()' node", ok, fi.loc(ret), fi.qual, src(v)[:90],
                      "the parenthesised branch of visit_Atom returns %s instead of the '()' operator node around the sentence" % src(v)[:80],
                      key="PAREN/visit_Atom/node-shape")
        elif src(v) == sent:
            kinds: Set[str] = set()
            if not guards or guards[-1] is None:
                kinds = {"anything"}
            else:
                kinds = admitted(guards[-1])
            unsafe = sorted(k for k in kinds if k.startswith("anything") or (k == "number" and signed))
            res.check("PAREN", "visit_Atom returns a bare sentence only when it is self-delimiting", not unsafe, fi.loc(ret), fi.qual,
                      "return %s  [admits %s]" % (sent, sorted(kinds)),
                      "visit_Atom drops the '()' node for %s: the generator flattens the tree to text and emits numbers as they are, while "
                      "the grammar's numeric literal accepts a leading '-'; '(-3)^2' is then emitted as '-3.0**2'" % ", ".join(unsafe),
                      key="PAREN/visit_Atom/bare-%s" % ("number" if "number" in unsafe else "sentence"))
        else:
            raise AnalysisError("visit_Atom: unrecognised return on the parenthesised branch: %s" % src(v)[:60])
    res.floor("returns on the parenthesised branch of visit_Atom", nret, 1)
    pe = _parse_expression(idx)
    from ..util import deref as _deref_

    def _written_out(e):
        """the test with named intermediates (kind = type(expression)) written out"""
        class W(ast.NodeTransformer):
            def visit_Name(self, node):
                v = _deref_(pe.node, node)
                return copy.deepcopy(v) if v is not node else node
        import copy
        return src(W().visit(copy.deepcopy(e)))
    num = [n for n in pe.node.body if isinstance(n, ast.If) and "float" in src(n.test) and "expression" in _written_out(n.test) and
           any(isinstance(x, ast.Return) for x in n.body)]
    if not num:
        raise AnalysisError("parseExpression: number branch not found")


# ---------------------------------------------------------------------------
# IR literals
# ---------------------------------------------------------------------------

def _ir_from_literal(d: ast.AST, env: Dict[str, object]):
    """Turn a dict literal of the IR into a Python structure; names become placeholders from *env*."""
    if isinstance(d, ast.Dict):
        m = {const_str(k): v for k, v in zip(d.keys, d.values)}
        if "type" not in m or "name" not in m:
            raise _Unsupported("IR literal without type/name")
        nm = const_str(m["name"])
        if nm is None and isinstance(m["name"], ast.Name) and isinstance(env.get(m["name"].id), str):
            nm = env[m["name"].id]
        out = {"type": const_str(m["type"]), "name": nm if nm is not None else ("$" + src(m["name"]))}
        if "args" in m:
            if not isinstance(m["args"], ast.List):
                raise _Unsupported("IR literal args not a list")
            out["args"] = [_ir_from_literal(a, env) for a in m["args"].elts]
        return out
    if isinstance(d, ast.Constant):
        return d.value
    if isinstance(d, ast.UnaryOp) and isinstance(d.op, ast.USub) and isinstance(d.operand, ast.Constant):
        return -d.operand.value
    if isinstance(d, ast.Name):
        if d.id in env:
            return env[d.id]
        return {"type": "placeholder", "name": d.id}
    if isinstance(d, ast.Call) and call_name(d) == "deepcopy" and d.args:
        return _ir_from_literal(d.args[0], env)
    if isinstance(d, ast.Subscript):
        return {"type": "placeholder", "name": re.sub(r"\W+", "_", src(d)).strip("_")}
    raise _Unsupported("IR literal element %s" % type(d).__name__)


def _ir_render(node, templates: Dict[str, XRenderer], probes: Dict[str, str]) -> str:
    if isinstance(node, (int, float)):
        return str(node)
    if node["type"] == "placeholder":
        return probes.get(node["name"], "ph_" + node["name"])
    if node["type"] == "identifier":
        return "id_" + re.sub(r"\W+", "_", node["name"])
    if node["type"] == "call":
        return "%s(%s)" % ("f_" + node["name"].lower(), ", ".join(_ir_render(a, templates, probes) for a in node.get("args", [])))
    if node["type"] == "operator":
        r = templates.get(node["name"].lower())
        if r is None:
            raise _Unsupported("operator %r" % node["name"])
        roles = [role for role, _ in hole_keys(r.parts)]
        names = {role: "ARG%d" % i for i, role in enumerate(roles)}
        subst = {"ARG%d" % i: _ir_render(a, templates, probes) for i, a in enumerate(node["args"])}
        return render(r.parts, "t", names, subst=subst)
    raise _Unsupported("IR node type %r" % node["type"])


_PY_BIN = {"+": ast.Add, "-": ast.Sub, "*": ast.Mult, "/": ast.Div, "^": ast.Pow, "mod": ast.Mod}


def _ir_tree(node, probes: Dict[str, str]) -> ast.AST:
    """The grouping the IR tree *means*."""
    if isinstance(node, (int, float)):
        return parse_expr(repr(node))
    if node["type"] == "placeholder":
        return parse_expr(probes.get(node["name"], "ph_" + node["name"]))
    if node["type"] == "identifier":
        return ast.Name(id="id_" + re.sub(r"\W+", "_", node["name"]), ctx=ast.Load())
    if node["type"] == "call":
        return ast.Call(func=ast.Name(id="f_" + node["name"].lower(), ctx=ast.Load()), args=[_ir_tree(a, probes) for a in node.get("args", [])], keywords=[])
    if node["type"] == "operator":
        n = node["name"].lower()
        if n == "()":
            return _ir_tree(node["args"][0], probes)
        if n in _PY_BIN:
            return ast.BinOp(left=_ir_tree(node["args"][0], probes), op=_PY_BIN[n](), right=_ir_tree(node["args"][1], probes))
        if n in ("<", "<=", ">", ">=", "=", "<>"):
            op = {"<": ast.Lt, "<=": ast.LtE, ">": ast.Gt, ">=": ast.GtE, "=": ast.Eq, "<>": ast.NotEq}[n]
            return ast.Compare(left=_ir_tree(node["args"][0], probes), ops=[op()], comparators=[_ir_tree(node["args"][1], probes)])
    raise _Unsupported("IR node %r" % (node.get("name"),))


def _ir_literals(idx: Index, res: Result, binary: Dict[str, XRenderer], ops: Dict[str, XRenderer]) -> None:
    templates = dict(ops)
    # placeholders stand for what the plugin's helpers return: a flat sum of flows / an arbitrary user equation
    probes = {"inflows": "i1 + i2", "outflows": "o1 + o2", "sum": "s1 - s2", "already_reduced": "r1 + r2"}
    nlit = 0
    # JoinedExpression(names, operator): the operator every call site passes
    sx = idx.func(STOCKX, "StockExpressions")
    opsargs = {const_str(c.args[1]) for c in iter_calls(sx.node) if call_name(c) == "JoinedExpression" and len(c.args) >= 2}
    if len(opsargs) != 1 or None in opsargs:
        raise AnalysisError("JoinedExpression is called with operators %s" % opsargs)
    lit_env = {"operator": opsargs.pop()}
    res.check("IRLIT", "flows are joined with '+'", lit_env["operator"] == "+", sx.loc(), sx.qual, "JoinedExpression(..., %r)" % lit_env["operator"],
              "inflows/outflows are joined with %r instead of '+'" % lit_env["operator"], key="IRLIT/StockExpressions/join-operator")
    # the functions that build IR literals: the plugin, the join helper and whatever it nests (the fold may be a nested function or a loop)
    joinq = ["JoinedExpression"] + sorted(q for q in idx.module(STOCKX).functions if q.startswith("JoinedExpression."))
    for rel, quals in ((STOCKX, ["StockExpressions"] + joinq), (XMILE, ["parse_xmile"])):
        for q in quals:
            fi = idx.func(rel, q)
            tops = []
            for n in walk_no_nested(fi.node):
                if isinstance(n, ast.Dict):
                    m = {const_str(k): v for k, v in zip(n.keys, n.values)}
                    if const_str(m.get("type", ast.Constant(0))) in ("operator", "call") and "args" in m:
                        tops.append(n)
            # only outermost literals
            inner = {id(x) for t in tops for x in ast.walk(t) if x is not t}
            tops = [t for t in tops if id(t) not in inner]
            for t in tops:
                try:
                    ir = _ir_from_literal(t, lit_env)
                    text = _ir_render(ir, templates, probes)
                    want = _ir_tree(ir, probes)
                    got = parse_expr(text)
                    ok = nf(got) == nf(ast.fix_missing_locations(want))
                except (_Unsupported, SyntaxError) as e:
                    raise AnalysisError("IR literal in %s not understood: %s" % (fi.qual, e))
                nlit += 1
                res.check("IRLIT", "%s: literal %s... keeps its grouping when flattened" % (fi.qual, " ".join(src(t).split())[:50]), ok, fi.loc(t), fi.qual,
                          text[:140], "the IR literal built in %s flattens to '%s', which Python groups differently from the tree the plugin "
                          "built (a compound operand is not wrapped in a '()' node)" % (fi.qual, text[:120]),
                          key="IRLIT/%s/%s" % (fi.qual, " ".join(src(t).split())[:50]))
    res.floor("IR operator/call literals in plugins", nlit, 6)


# ---------------------------------------------------------------------------
# reference shapes of the deterministic numeric built-ins
# ---------------------------------------------------------------------------

SHAPES = {
    "abs": ["abs(A)"], "sqrt": ["A ** 0.5"], "exp": ["np.exp(A)"], "ln": ["np.log(A)"], "log10": ["np.log10(A)"],
    "sin": ["math.sin(A)"], "cos": ["math.cos(A)"], "tan": ["math.tan(A)"], "int": ["math.floor(A)"], "round": ["round(A)"],
    "percent": ["A * 100"],
    "min": ["min([A_0, A_1])", "min(A_0)", "min(A_0, A_1)"], "max": ["max([A_0, A_1])", "max(A_0)", "max(A_0, A_1)"],
    "step": ["0 if t < B else A"],
    "if": ["B if A else C", "0 if A else C"],
    "safediv": ["0 if B == 0 else A / B", "C if B == 0 else A / B"],
    "pulse": ["A / self.dt", "A / self.dt if B <= t else 0", "A / self.dt if B == t else 0",
              "A / self.dt if B <= t and (t - B) % C == 0 else 0", "A / self.dt if self.starttime <= t else 0",
              "A / self.dt if self.starttime <= t and (t - self.starttime) % C == 0 else 0", "A / self.dt if self.starttime == t else 0"],
}


def _builtin_shapes(res: Result, renderers: List[XRenderer]) -> None:
    n = 0
    for r in renderers:
        if r.kind != "builtin" or r.name not in SHAPES:
            continue
        roles = []
        for role, h in hole_keys(r.parts):
            if role not in roles:
                roles.append(role)
        order = sorted(roles, key=lambda s: (re.sub(r"\D", "", s) or "0", s))
        letters = {}
        for i, role in enumerate(order):
            if role.endswith("[*]"):
                letters[role] = "A"
            else:
                k = re.findall(r"\[(\d+)\]", role)
                letters[role] = "ABCD"[int(k[-1])] if k else "A"
        comma_rep = any(isinstance(x, Rep) and x.sep == "," for x in r.parts)
        txt = render(r.parts, "t", letters, rep_n=1 if comma_rep else 2)
        if comma_rep:
            txt = txt.replace("A_0", "A")
        try:
            got = nf(parse_expr(txt))
        except SyntaxError:
            got = None
        ok = got is not None and any(got == nf(parse_expr(w)) for w in SHAPES[r.name])
        n += 1
        res.check("R3", "builtin %s path '%s' matches its reference" % (r.name, r.text[:50]), ok, r.loc, "builtins[%r]" % r.name, txt[:120],
                  "%s is generated as '%s'; the reference shapes are %s" % (r.name.upper(), " ".join(txt.split())[:100], SHAPES[r.name]),
                  key="R3/builtins.%s/%s" % (r.name, " ".join(txt.split())[:50]))
    res.floor("reference-shape instances", n, 20)


# ---------------------------------------------------------------------------
# the Jinja template of the generated model class
# ---------------------------------------------------------------------------

def jinja_methods(idx: Index) -> Tuple[Dict[str, ast.FunctionDef], List[str]]:
    """Every def of the generated-model template parsed on its own ({{ x }} -> placeholder, {% ... %} dropped)."""
    m = idx.module(JINJA)
    text = None
    for n in m.tree.body:
        if isinstance(n, ast.Assign) and isinstance(n.targets[0], ast.Name) and n.targets[0].id == "template" and isinstance(n.value, ast.Constant):
            text = n.value.value
    if text is None:
        raise AnalysisError("jinja_template.py: template string not found")
    text = re.sub(r"\{\{.*?\}\}", "JINJA", text)
    lines = [ln for ln in text.splitlines() if not re.match(r"\s*\{%.*%\}\s*$", ln)]
    chunks: List[List[str]] = []
    cur: Optional[List[str]] = None
    for ln in lines:
        if re.match(r"^(    )?def \w+\(", ln):
            if cur:
                chunks.append(cur)
            cur = [ln]
        elif re.match(r"^class \w+", ln):
            if cur:
                chunks.append(cur)
            cur = None
        elif cur is not None:
            cur.append(ln)
    if cur:
        chunks.append(cur)
    out: Dict[str, ast.FunctionDef] = {}
    failed: List[str] = []
    for ch in chunks:
        srctext = textwrap.dedent("\n".join(ch))
        name = re.match(r"def (\w+)", srctext).group(1)
        import warnings
        parsed = None
        text_ = re.sub(r"\{%.*?%\}", "", srctext)            # inline template tags
        text_ = re.sub(r"\{#.*?#\}", "", text_, flags=re.S)
        for _attempt in range(40):                             # lines that are template-only text (comments, markup) are blanked one by one
            try:
                with warnings.catch_warnings():
                    warnings.simplefilter("ignore")
                    parsed = ast.parse(text_).body[0]
                break
            except SyntaxError as e:
                ls = text_.split("\n")
                if not e.lineno or e.lineno > len(ls) or not ls[e.lineno - 1].strip() or e.lineno == 1:
                    break
                ls[e.lineno - 1] = ""
                text_ = "\n".join(ls)
        if parsed is not None:
            out[name] = parsed
        else:
            failed.append(name)
    # the same analysis view as for the package's own modules: idioms normalised, unknown helpers looked through
    from ..inline import canonicalise, inline_module, load_vocab
    cls = ast.ClassDef(name="simulation_model", bases=[], keywords=[], body=list(out.values()) or [ast.Pass()], decorator_list=[])
    mod = ast.fix_missing_locations(ast.Module(body=[cls], type_ignores=[]))
    canonicalise(mod)
    inline_module(mod, load_vocab())
    return out, failed


def generated_time_checks(idx: Index, res: Result, rule: str) -> None:
    """'any dt' clause: the generated model's memo must be probed/filled under a normalised time."""
    methods, failed = jinja_methods(idx)
    res.floor("generated-model methods parsed from the Jinja template", len(methods), 36)
    if "memoize" not in methods:
        raise AnalysisError("generated memoize() not found in the Jinja template")
    mm = methods["memoize"]
    arg = [a.arg for a in mm.args.args][2]
    from ..util import _written_out as _wo0
    normalised = [n for n in ast.walk(mm) if isinstance(n, ast.Assign) and arg in {x.id for x in ast.walk(n.value) if isinstance(x, ast.Name)}
                  and any(isinstance(c, ast.Call) and call_name(c) in ("normalize", "round") for c in ast.walk(_wo0(mm, n.value)))]
    keys = [n for n in ast.walk(mm) if isinstance(n, ast.Subscript) and isinstance(n.value, ast.Name) and n.value.id == "mymemo"]
    probe = [n for n in ast.walk(mm) if isinstance(n, ast.Compare) and isinstance(n.ops[0], ast.In) and "mymemo" in src(n.comparators[0])]
    if not keys or not probe:
        raise AnalysisError("generated memoize(): memo accesses not found")
    norm_names = {t.id for n in normalised for t in n.targets if isinstance(t, ast.Name)}
    for _ in range(3):
        for n in ast.walk(mm):
            if isinstance(n, ast.Assign) and isinstance(n.targets[0], ast.Name) and isinstance(n.value, ast.Name) and n.value.id in norm_names:
                norm_names.add(n.targets[0].id)
    raw = [k for k in keys if src(k.slice) not in norm_names] + [p for p in probe if src(p.left) not in norm_names]
    res.check(rule, "generated memoize() keys its memo on a normalised time", not raw, "%s (template)" % JINJA, "jinja:simulation_model.memoize",
              "; ".join(sorted({src(k)[:40] for k in raw})),
              "the generated model's memoize() probes and fills its memo with the raw float argument '%s' and previous() emits raw t-self.dt: "
              "for dt=0.1 the countdown from 0.4 reaches 2.8e-17 instead of 0, the test t <= self.starttime fails and one extra "
              "integration step is taken (S'=1 gives S(0.4)=0.5)" % arg, key="%s/jinja:simulation_model.memoize/key=%s" % (rule, arg))
    # the normalisation must be relative to the model's own grid (start + k*dt): rounding to a fixed number of decimals is right
    # for decimal dt only - with dt=1/3 the rounded time minus dt misses the previous grid point
    from ..util import _written_out as _wo
    for n in normalised:
        txt = src(_wo(mm, n.value))             # locals that hold self.dt / self.starttime (dt = self.dt, (dt := self.dt)) written out
        grid_rel = "self.dt" in txt and "self.starttime" in txt
        res.check(rule, "generated memoize() normalises relative to its own grid (start, dt)", grid_rel, "%s (template)" % JINJA, "jinja:simulation_model.memoize",
                  norm_stmt(n)[:120], "the generated memoize() normalises the time with '%s', which does not refer to self.starttime and self.dt: "
                  "a fixed decimal rounding breaks reciprocal dt (1/3: the rounded 0.6666666667 - dt is not the previous grid point, an extra "
                  "integration step is taken)" % norm_stmt(n)[:80], key="%s/jinja:simulation_model.memoize/not-grid-relative" % rule)
    eq = methods.get("equation")
    ok = eq is not None and any(isinstance(n, ast.Return) and isinstance(n.value, ast.Call) and call_name(n.value) == "memoize" for n in ast.walk(eq))
    res.check(rule, "generated equation() delegates to memoize()", ok, "%s (template)" % JINJA, "jinja:simulation_model.equation", "return self.memoize(equation, arg)",
              "generated equation() does not delegate to memoize()", key="%s/jinja:simulation_model.equation" % rule)


def _lookup_shape(fn: ast.FunctionDef, res: Result, rule: str, who: str, where: str) -> None:
    x = [a.arg for a in fn.args.args if a.arg != "self"][0]
    ifs = [n for n in fn.body if isinstance(n, ast.If) and len(n.body) == 1 and isinstance(n.body[0], ast.Return)]

    def kind(e: ast.AST, arr: str) -> Optional[str]:
        if isinstance(e, ast.Subscript) and src(e.value) == arr:
            s_ = src(e.slice).replace(" ", "")
            return "first" if s_ == "0" else "last" if s_ in ("-1", "len(x_vals)-1", "len(y_vals)-1") else None
        return None
    low = high = None
    for n in ifs:
        t = n.test
        if not (isinstance(t, ast.Compare) and len(t.ops) == 1):
            continue
        l, r_, op = t.left, t.comparators[0], type(t.ops[0])
        if src(r_) == x:
            l, r_ = r_, l
            op = {ast.Lt: ast.Gt, ast.LtE: ast.GtE, ast.Gt: ast.Lt, ast.GtE: ast.LtE}.get(op, op)
        if src(l) != x:
            continue
        pair = (kind(r_, "x_vals"), kind(n.body[0].value, "y_vals"))
        if op in (ast.Lt, ast.LtE):
            low = pair
        elif op in (ast.Gt, ast.GtE):
            high = pair
    res.check(rule, "%s clamps below the first point" % who, low == ("first", "first"), where, who, str(low), "%s low clamp is %s" % (who, low), key="%s/%s/low-clamp" % (rule, who))
    res.check(rule, "%s clamps above the last point" % who, high == ("last", "last"), where, who, str(high), "%s high clamp is %s" % (who, high), key="%s/%s/high-clamp" % (rule, who))
    ic = [c for c in ast.walk(fn) if isinstance(c, ast.Call) and call_name(c) == "interp1d"]
    ok = len(ic) == 1 and [src(a) for a in ic[0].args] == ["x_vals", "y_vals"] and not any(k.arg == "kind" and const_str(k.value) != "linear" for k in ic[0].keywords)
    res.check(rule, "%s interpolates linearly" % who, ok, where, who, src(ic[0]) if ic else "", "%s does not use linear interp1d(x_vals, y_vals)" % who, key="%s/%s/interp" % (rule, who))


def _previous_regexes(idx: Index) -> List[Tuple[str, str]]:
    from ..util import deref
    fi = idx.func(PY, "previous")
    subs = []
    for c in sorted([c for c in iter_calls(fi.node) if call_name(c) == "sub"], key=seq):
        if call_recv(c) == "re" and len(c.args) >= 3:                      # re.sub(pattern, repl, text)
            p_, r_ = c.args[0], c.args[1]
        elif isinstance(c.func, ast.Attribute) and len(c.args) >= 2:      # re.compile(pattern).sub(repl, text)
            comp = deref(fi.node, c.func.value)
            if not (isinstance(comp, ast.Call) and call_name(comp) == "compile" and comp.args):
                continue
            p_, r_ = comp.args[0], c.args[0]
        else:
            continue
        pat = const_str(deref(fi.node, p_))
        rep = const_str(deref(fi.node, r_))
        if pat is None or rep is None:
            raise AnalysisError("previous(): re.sub with non-constant pattern/replacement")
        subs.append((pat, rep))
    if len(subs) != 2:
        raise AnalysisError("previous(): expected two re.sub rewrites, found %d" % len(subs))
    return subs


def _join_fold(idx: Index, res: Result) -> int:
    """JOIN: JoinedExpression / DimJoinedExpression put *every* flow name into the joined IR exactly once.  For more than two names they
    split the list into ``tail`` (seed of the accumulator) and ``rest`` and fold ``rest`` into the accumulator; the rule checks the
    split is a partition, the loop threads the accumulator (loop-carried), every element of rest enters, and the accumulator is returned."""
    n_inst = 0
    for qual in ("JoinedExpression", "DimJoinedExpression"):
        fi = idx.try_func(STOCKX, qual)
        if fi is None:
            if qual == "JoinedExpression":
                raise AnalysisError("anchor vanished: stockExpressions.JoinedExpression")
            continue
        names = params(fi.node)[0]
        loops = [n for n in walk_no_nested(fi.node) if isinstance(n, ast.For)]
        if len(loops) != 1:
            raise AnalysisError("%s: expected one fold loop, found %d" % (qual, len(loops)))
        lp = loops[0]
        n_inst += 1
        # the collection folded and the element variable
        it = lp.iter
        wrappers = []
        while isinstance(it, ast.Call) and call_name(it) in ("enumerate", "reversed", "list", "iter") and it.args:
            wrappers.append(call_name(it))
            it = it.args[0]
        coll = src(it)
        tnames = [x.id for x in ast.walk(lp.target) if isinstance(x, ast.Name)]
        elem = tnames[-1] if "enumerate" in wrappers else tnames[0]
        assigns = {}
        for n in walk_no_nested(fi.node):
            if isinstance(n, ast.Assign):
                for t in n.targets:
                    if isinstance(t, ast.Name):
                        assigns.setdefault(t.id, []).append(n)
        # (a) partition: the list folded is a slice of the names and the seed of the accumulator holds exactly the remaining ones.
        #     Written either with named slices (tail = names[-2:]; rest = names[:-2]; seed from tail[0], tail[1]) or directly
        #     (for n in names[:-2] ... seeded from names[-2], names[-1]).
        def int_of(e) -> Optional[int]:
            if isinstance(e, ast.UnaryOp) and isinstance(e.op, ast.USub) and isinstance(e.operand, ast.Constant) and isinstance(e.operand.value, int):
                return -e.operand.value
            if isinstance(e, ast.Constant) and isinstance(e.value, int) and not isinstance(e.value, bool):
                return e.value
            return None

        def as_slice(e):
            """(lo, hi) of names[lo:hi], following one local name"""
            if isinstance(e, ast.Name) and e.id != names and len(assigns.get(e.id, [])) == 1:
                e = assigns[e.id][0].value
            if isinstance(e, ast.Subscript) and src(e.value) == names and isinstance(e.slice, ast.Slice) and e.slice.step is None:
                lo = int_of(e.slice.lower) if e.slice.lower is not None else None
                hi = int_of(e.slice.upper) if e.slice.upper is not None else None
                if (e.slice.lower is None or lo is not None) and (e.slice.upper is None or hi is not None):
                    return lo, hi
            return None
        rest_sl = as_slice(it)
        # the statement that updates the accumulator in the loop
        body_assigns = [n for n in lp.body if isinstance(n, ast.Assign) and isinstance(n.targets[0], ast.Name) and isinstance(n.value, (ast.Call, ast.Dict))]
        if len(body_assigns) != 1:
            raise AnalysisError("%s: fold loop body not understood" % qual)
        st = body_assigns[0]
        acc = st.targets[0].id
        seeds_ = [a for a in assigns.get(acc, []) if seq(a) < seq(lp)]
        # indices of names the seed holds (through a named slice or directly)
        seed_idx: Set[int] = set()
        seed_name = None
        ok_part, why = False, "the list folded (%s) and the seed of the accumulator are not complementary parts of %s" % (coll, names)
        if seeds_ and rest_sl is not None:
            for x in ast.walk(seeds_[-1].value):
                if isinstance(x, ast.Subscript) and not isinstance(x.slice, ast.Slice) and int_of(x.slice) is not None:
                    i_ = int_of(x.slice)
                    if src(x.value) == names:
                        seed_idx.add(i_)
                    else:
                        sl = as_slice(x.value)
                        if sl is not None:
                            seed_name = src(x.value)
                            lo, hi = sl
                            # tail = names[-k:] -> tail[i] is names[-k+i];  head = names[:k] -> head[i] is names[i]
                            if lo is not None and lo < 0 and hi is None and i_ >= 0:
                                seed_idx.add(lo + i_)
                            elif lo is None and hi is not None and hi > 0 and i_ >= 0:
                                seed_idx.add(i_)
                            else:
                                seed_idx.add(10 ** 6)
            rlo, rhi = rest_sl
            if rlo is None and rhi is not None and rhi < 0:                    # rest = names[:-k]  <->  seed = names[-k..-1]
                ok_part = seed_idx == set(range(rhi, 0))
            elif rhi is None and rlo is not None and rlo > 0:                  # rest = names[k:]   <->  seed = names[0..k-1]
                ok_part = seed_idx == set(range(0, rlo))
            if not ok_part:
                why = "the fold runs over %s[%s:%s] but the accumulator's seed holds the names at %s" % (
                    names, "" if rlo is None else rlo, "" if rhi is None else rhi, sorted(seed_idx))
        res.check("JOIN", "%s: seed and folded list partition the names" % qual, ok_part, fi.loc(lp), fi.qual, "%s / %s" % (seed_name or "seed", coll), why,
                  key="JOIN/%s/partition" % qual)
        # (b) loop-carried accumulator
        if isinstance(st.value, ast.Call):
            argn = [{x.id for x in ast.walk(a) if isinstance(x, ast.Name)} for a in st.value.args]
        else:
            argn = [{x.id for x in ast.walk(st.value) if isinstance(x, ast.Name)}]
        carried = any(acc in a for a in argn)
        takes_elem = any(elem in a for a in argn)
        res.check("JOIN", "%s: the fold threads its accumulator" % qual, carried, fi.loc(st), fi.qual, norm_stmt(st),
                  "each turn of the loop computes %s from %s and not from the accumulator %s of the previous turn: with more than three names "
                  "the ones folded earlier are dropped from the sum" % (acc, src(st.value)[:80], acc), key="JOIN/%s/accumulator-not-carried" % qual)
        res.check("JOIN", "%s: every element of %s enters the fold" % (qual, coll), takes_elem, fi.loc(st), fi.qual, norm_stmt(st),
                  "the fold step %s does not take the loop element %s" % (src(st.value)[:80], elem), key="JOIN/%s/element-not-folded" % qual)
        # (c) the step function keeps both of its arguments (when the step is a function of its own)
        if isinstance(st.value, ast.Call):
            stepf = idx.try_func(STOCKX, "%s.%s" % (qual, call_name(st.value)))
            if stepf is None:
                raise AnalysisError("%s: fold step %s not found" % (qual, call_name(st.value)))
            ps = params(stepf.node)
            rets = [r for r in walk_no_nested(stepf.node) if isinstance(r, ast.Return)]
            used = {x.id for r in rets for x in ast.walk(r) if isinstance(x, ast.Name)}
            res.check("JOIN", "%s.%s keeps both arguments" % (qual, stepf.name), set(ps) <= used, stepf.loc(), stepf.qual, src(rets[0].value)[:80] if rets else "",
                      "the fold step returns a node without %s" % sorted(set(ps) - used), key="JOIN/%s/step-drops-argument" % qual)
        # (d) the accumulator is what is returned after the loop
        inside = [r for r in ast.walk(lp) if isinstance(r, ast.Return)]
        res.check("JOIN", "%s: the fold runs over all of %s" % (qual, coll), not inside, fi.loc(inside[0]) if inside else fi.loc(lp), fi.qual,
                  norm_stmt(inside[0]) if inside else "", "the fold loop returns from inside its body: only the first element of %s is folded, "
                  "the remaining names never enter the sum" % coll, key="JOIN/%s/returns-inside-fold" % qual)
        after = [r for r in walk_no_nested(fi.node) if isinstance(r, ast.Return) and seq(r) > seq(lp) and not any(x is r for x in ast.walk(lp))]
        ok = (bool(after) or bool(inside)) and all(src(r.value) == acc for r in after)
        res.check("JOIN", "%s returns the accumulator" % qual, ok, fi.loc(after[0]) if after else fi.loc(), fi.qual, src(after[0].value) if after else "",
                  "after the fold %s returns %s, not the accumulator %s" % (qual, src(after[0].value) if after else "nothing", acc),
                  key="JOIN/%s/returns-%s" % (qual, src(after[0].value) if after else "nothing"))
        # (e) the seed of the accumulator reaches the loop: acc is bound to the seed literal before the loop
        pre = [a for a in assigns.get(acc, []) if seq(a) < seq(lp)]
        res.check("JOIN", "%s: accumulator seeded before the loop" % qual, bool(pre), fi.loc(lp), fi.qual, acc, "the accumulator %s has no binding before the loop" % acc,
                  key="JOIN/%s/unseeded" % qual)
    return n_inst


def dt_exact_rule(idx: Index, res: Result, rule: str = "DTEXACT") -> int:
    """DTEXACT (round 10): 'for any dt' - the dt handed to the generated model is the number written in the <dt> tag or its exact
    reciprocal.  Decided on the backward slice of every store into specs["dt"] in parse_xmile (helpers inlined by the view): the only
    operations on that flow are subscripts, str/strip/lower/replace on the text, float()/int() and the division 1 / x.  Anything else
    (round, Fraction(...).limit_denominator, Decimal.quantize, np.round, a tolerance snap) makes some legal dt a different number - the
    model then integrates on another grid than the file specifies.  Returns the number of stores examined."""
    fi = idx.func(XMILE, "parse_xmile")
    fn = fi.node
    def is_dt_target(t: ast.AST) -> bool:
        return isinstance(t, ast.Subscript) and const_str(t.slice) == "dt" and isinstance(t.value, ast.Name)
    stores = [n for n in walk_no_nested(fn) if isinstance(n, ast.Assign) and len(n.targets) == 1 and is_dt_target(n.targets[0])]
    ALLOW = {"int", "float", "str", "strip", "lstrip", "rstrip", "lower", "upper", "replace", "get", "keys", "deepcopy", "format"}
    assigns: Dict[str, List[ast.Assign]] = {}
    for n in walk_no_nested(fn):
        if isinstance(n, ast.Assign) and len(n.targets) == 1 and isinstance(n.targets[0], ast.Name):
            assigns.setdefault(n.targets[0].id, []).append(n)
    for st in stores:
        seen: Set[str] = {st.targets[0].value.id}        # the specs record itself (the parsed document) is where the text comes from
        work = [st.value]
        exprs = []
        while work:
            e = work.pop()
            exprs.append(e)
            for y in ast.walk(e):
                if isinstance(y, ast.Name) and y.id in assigns and y.id not in seen:
                    seen.add(y.id)
                    work.extend(a.value for a in assigns[y.id])
        bad = []
        for e in exprs:
            for y in ast.walk(e):
                if isinstance(y, ast.Call) and call_name(y) not in ALLOW:
                    bad.append(y)
                if isinstance(y, ast.BinOp) and not (isinstance(y.op, ast.Div) and isinstance(y.left, ast.Constant) and y.left.value in (1, 1.0)):
                    bad.append(y)
        res.check(rule, "dt stored by parse_xmile is the tag's number or its exact reciprocal (%s)" % norm_stmt(st)[:60], not bad, fi.loc(st), fi.qual,
                  norm_stmt(st)[:100],
                  "the dt of the run specs passes through `%s` on its way from the <dt> tag into specs['dt']: not an exact conversion of the "
                  "number in the file, so for some legal dt the model integrates with a different step than specified"
                  % (src(bad[0])[:80] if bad else ""), key="%s/parse_xmile/%s" % (rule, call_name(bad[0]) if bad and isinstance(bad[0], ast.Call) else "arith"))
    res.floor("stores into specs['dt'] in parse_xmile", len(stores), 1)
    return len(stores)


def check_c04(idx: Index, tier: str, res: Result) -> None:
    res.explanation = ("(1) the IR literal built by StockExpressions has the explicit-Euler shape IF(TIME<=STARTTIME, init, PREVIOUS(self) + "
                       "DT*PREVIOUS(net flow)) with the three net-flow forms (inflows), (-1*(outflows)), (inflows-(outflows)); (2) previous() "
                       "turns every memo lookup at t into one at t-self.dt - decided by extracting its two regex constants and applying the "
                       "standard library's re.sub to the extracted identifier template; (3) non_negative => max(0, .) rendered by max_; "
                       "(4) sibling agreement: the rendered XMILE stock equals the DSL stock's normal form, LERP has the clamps and linear "
                       "interpolation of Model._lookup; (5) 'any dt': the generated model must key its memo on normalised times.")
    res.rules = ["EULER: shape of the stock IR literal and of the rendered stock text", "JOIN: every inflow/outflow name enters the joined expression once (fold is loop-carried)", "PREV: regex rewrite applied to extracted templates",
                 "NONNEG: wrap and rendering", "SIBLING: XMILE vs DSL normal forms, LERP vs _lookup", "TIME: time kind in the generated class",
                 "DTEXACT: the dt of the run specs is the tag's number or its exact reciprocal (slice of parse_xmile)"]
    res.not_decided = ["trajectories of concrete models", "Stella compatibility of built-ins", "array expansion of arrayed stocks"]
    dt_exact_rule(idx, res)
    renderers, skipped = extract_py(idx, res)
    byname: Dict[str, List[XRenderer]] = {}
    for r in renderers:
        byname.setdefault(r.name, []).append(r)
    ops = {r.name: r for r in renderers if r.kind == "operator"}
    sx = idx.func(STOCKX, "StockExpressions")
    # ---- (1) the stock literal ---------------------------------------------------------------------------------------
    # the stock literal: the IF(...) call node the plugin builds, whatever it is bound to (a local or the entity's equation directly)
    def _is_if_literal(d) -> bool:
        m_ = {const_str(k): v for k, v in zip(d.keys, d.values)} if isinstance(d, ast.Dict) else {}
        return const_str(m_.get("name", ast.Constant(0))) == "IF" and const_str(m_.get("type", ast.Constant(0))) == "call"
    exprs = [n for n in walk_no_nested(sx.node) if isinstance(n, ast.Assign) and _is_if_literal(n.value)]
    if len(exprs) != 1:
        raise AnalysisError("StockExpressions: the stock expression literal was not found")
    ir = _ir_from_literal(exprs[0].value, {})
    # the net-flow variable: the plain name handed to PREVIOUS(...) inside the stock literal (whatever it is called)
    netvar = "sum"
    for d_ in ast.walk(exprs[0].value):
        if isinstance(d_, ast.Dict):
            m_ = {const_str(k): v for k, v in zip(d_.keys, d_.values)}
            if const_str(m_.get("name", ast.Constant(0))) == "PREVIOUS" and isinstance(m_.get("args"), ast.List) and len(m_["args"].elts) == 1 \
                    and isinstance(m_["args"].elts[0], ast.Name):
                netvar = m_["args"].elts[0].id
    probes = {netvar: "NET", "entity_equation_parsed": "INIT"}
    tree = ast.fix_missing_locations(_ir_tree_calls(ir, probes))
    want = "f_if(f_time() <= f_starttime(), INIT, f_previous(SELF) + f_dt() * f_previous(NET))"
    got = nf(tree)
    ok = got == nf(parse_expr(want))
    why = "the stock literal is %s, expected %s" % (ast.unparse(tree)[:160], want)
    if not ok:
        for alt, msg in (("f_if(f_time() < f_starttime(), INIT, f_previous(SELF) + f_dt() * f_previous(NET))", "the initial test is TIME < STARTTIME: the first grid point recurses before the start"),
                         ("f_if(f_time() <= f_starttime(), INIT, f_previous(SELF) + f_dt() * NET)", "the net flow is not taken at the previous time (PREVIOUS missing): not explicit Euler"),
                         ("f_if(f_time() <= f_starttime(), INIT, f_previous(SELF) + f_previous(NET))", "the net flow is not multiplied by DT")):
            if got == nf(parse_expr(alt)):
                why = msg + "; " + why
    res.check("EULER", "stock = IF(TIME<=STARTTIME, init, PREVIOUS(self) + DT*PREVIOUS(net))", ok, sx.loc(exprs[0]), sx.qual, ast.unparse(tree)[:140], why,
              key="EULER/StockExpressions/literal")
    selfref = [n for n in ast.walk(exprs[0].value) if isinstance(n, ast.Dict) and any(const_str(v) == "identifier" for v in n.values)]
    ok = len(selfref) == 1 and any(src(v) == 'entity["name"]' or src(v) == "entity['name']" for v in selfref[0].values)
    res.check("EULER", "PREVIOUS(self) refers to the stock itself", ok, sx.loc(), sx.qual, src(selfref[0])[:80] if selfref else "",
              "the previous value is read from %s" % (src(selfref[0])[:60] if selfref else "?"), key="EULER/StockExpressions/self")
    # net-flow forms
    sums = [n for n in walk_no_nested(sx.node) if isinstance(n, ast.Assign) and src(n.targets[0]) == netvar]
    forms = []
    flow_probes = {"inflows": "i1 + i2", "outflows": "o1 + o2"}
    for n in sums:
        if isinstance(n.value, ast.Dict):
            irn = _ir_from_literal(n.value, {})
            # what the literal *means* (tree) and what it becomes once flattened to text by the operator templates
            t = nf(ast.fix_missing_locations(_ir_tree(irn, flow_probes)))
            txt = _ir_render(irn, dict(ops), flow_probes)
            try:
                flat = nf(parse_expr(txt))
            except SyntaxError:
                flat = None
            res.check("EULER", "net-flow literal '%s' keeps its meaning when flattened" % " ".join(txt.split())[:50], flat == t, sx.loc(n), sx.qual,
                      " ".join(txt.split())[:120], "the net-flow literal flattens to '%s', which is not what the IR tree means (with two or more "
                      "flows the later ones change sign)" % " ".join(txt.split())[:100], key="EULER/StockExpressions/net-flattened/%s" % " ".join(txt.split())[:40])
            forms.append((n, flat))
        elif isinstance(n.value, ast.Constant):
            forms.append((n, nf(parse_expr(repr(n.value.value)))))
    wanted = {"inflows only": nf(parse_expr("i1 + i2")), "outflows only": nf(parse_expr("-1 * (o1 + o2)")),
              "both": nf(parse_expr("i1 + i2 - (o1 + o2)")), "none": nf(parse_expr("0"))}
    have = [f for _, f in forms]
    for label, w in wanted.items():
        res.check("EULER", "net flow, %s" % label, w in have, sx.loc(), sx.qual, label,
                  "no net-flow literal equals %s for the case '%s'" % ({"inflows only": "(inflows)", "outflows only": "(-1*(outflows))", "both": "(inflows-(outflows))", "none": "0"}[label], label),
                  key="EULER/StockExpressions/net-%s" % label.replace(" ", "-"))
    res.floor("net-flow literals", len(forms), 4)
    res.floor("flow-joining folds", _join_fold(idx, res), 2)

    # ---- (2) previous() ---------------------------------------------------------------------------------------------------
    subs = _previous_regexes(idx)
    pe = _parse_expression(idx)
    idtmpl = None
    for n in ast.walk(pe.node):
        if isinstance(n, ast.Return) and isinstance(n.value, ast.Call) and call_name(n.value) == "format" and "self.memoize" in src(n.value.func.value):
            idtmpl = n.value.func.value.value
    if idtmpl is None:
        raise AnalysisError("parseExpression: identifier template not found")
    samples = [idtmpl.format("x"), "( %s + %s - ( %s ) )" % (idtmpl.format("a"), idtmpl.format("b"), idtmpl.format("c")),
               "( -1 * ( %s ) )" % idtmpl.format("o")]

    def prev(text: str) -> str:
        body = text
        for pat, rep in subs:
            body = re.sub(pat, rep, body)
        return body
    for smp in samples:
        out = prev(smp)
        try:
            got = nf(parse_expr(out))
            wantp = nf(parse_expr(re.sub(r",\s*t\)", ", t - self.dt)", smp)))
            ok = got == wantp
        except SyntaxError:
            ok = False
        res.check("PREV", "previous() rewrites %s" % smp[:50], ok, pe.loc(), "previous", "%s -> %s" % (smp[:60], out[:70]),
                  "previous() turns '%s' into '%s', which is not the same expression with every memo lookup moved to t - self.dt: the "
                  "integrator would not read the previous grid point" % (smp[:70], out[:80]), key="PREV/previous/%s" % smp[:30])
    # ---- rendered stock vs DSL normal form ---------------------------------------------------------------------------------------
    def one(name: str, cond=None) -> XRenderer:
        c = [r for r in byname.get(name, []) if cond is None or cond(r)]
        if not c:
            raise AnalysisError("template for %r not extracted" % name)
        return c[0]
    t_time = render(one("time").parts, "t", {}).strip()
    t_start = render(one("starttime").parts, "t", {}).strip()
    t_dt = render(one("dt").parts, "t", {}).strip()
    cond_txt = render(ops["<="].parts, "t", {"lhs": "L", "rhs": "R"}, subst={"L": t_time, "R": t_start})
    mul = render(ops["*"].parts, "t", {"lhs": "L", "rhs": "R"}, subst={"L": t_dt, "R": prev("( %s )" % idtmpl.format("f"))})
    add = render(ops["+"].parts, "t", {"lhs": "L", "rhs": "R"}, subst={"L": prev(idtmpl.format("s")), "R": mul})
    ifr = one("if", lambda r: any("then == ''" in c and not v for c, v in r.conds))
    roles = [role for role, _ in hole_keys(ifr.parts)]
    nm = {role: "H%d" % i for i, role in enumerate(roles)}
    sub = {}
    for role in roles:
        k = re.findall(r"\[(\d)\]", role)[-1]
        sub[nm[role]] = {"0": cond_txt, "1": "INIT", "2": add}[k]
    stock_txt = render(ifr.parts, "t", nm, subst=sub)
    try:
        got = nf(parse_expr(stock_txt))
        ok = got == nf(parse_expr("INIT if t <= self.starttime else self.memoize('s', t - self.dt) + self.dt * self.memoize('f', t - self.dt)"))
    except SyntaxError:
        ok = False
    res.check("SIBLING", "rendered XMILE stock == DSL stock normal form", ok, PY, "if_/previous/operators", " ".join(stock_txt.split())[:160],
              "a transpiled stock is generated as '%s', which is not 'init if t <= start else stock(t-dt) + dt*netflow(t-dt)' (the DSL's "
              "integrator)" % " ".join(stock_txt.split())[:150], key="SIBLING/stock-normal-form")
    # ---- (3) non-negative ------------------------------------------------------------------------------------------------------------
    px = idx.func(XMILE, "parse_xmile")
    wraps = [n for n in walk_no_nested(px.node) if isinstance(n, ast.Dict) and any(const_str(v) == "max" for v in n.values)]
    guard = [g for g in walk_no_nested(px.node) if isinstance(g, ast.If) and "non_negative" in src(g.test)]
    ok = len(wraps) == 1 and bool(guard) and any(x is wraps[0] for g in guard for x in ast.walk(g))
    if ok:
        m_ = {const_str(k): v for k, v in zip(wraps[0].keys, wraps[0].values)}
        ok = const_str(m_["type"]) == "call" and isinstance(m_["args"], ast.List) and src(m_["args"].elts[0]) == "0" and "equation_parsed" in src(m_["args"].elts[1])
    res.check("NONNEG", "non_negative => max(0, equation)", ok, px.loc(), px.qual, src(wraps[0])[:100] if wraps else "", "a non-negative flow is not wrapped in max(0, equation)",
              key="NONNEG/parse_xmile/wrap")
    # the flag itself: an empty element <non_negative/> parses to None, so the flag is the *presence* of the key, not its value
    from ..util import deref as _deref_nn
    pe_nn = idx.func(XMILE, "parse_entity")
    flagvals = [v for d in ast.walk(pe_nn.node) if isinstance(d, ast.Dict) for k, v in zip(d.keys, d.values) if const_str(k) == "non_negative"]
    if not flagvals:
        raise AnalysisError("parse_entity: the 'non_negative' field of the entity record not found")
    for fv in flagvals:
        val = _deref_nn(pe_nn.node, fv)
        by_value = [x for x in ast.walk(val) if (isinstance(x, ast.Call) and call_name(x) == "get" and x.args and const_str(x.args[0]) == "non_negative")
                    or (isinstance(x, ast.Subscript) and const_str(x.slice) == "non_negative")]
        by_presence = [x for x in ast.walk(val) if isinstance(x, ast.Compare) and len(x.ops) == 1 and isinstance(x.ops[0], (ast.In, ast.NotIn)) and const_str(x.left) == "non_negative"]
        res.check("NONNEG", "a flow is non-negative when the element is present", bool(by_presence) and not by_value, pe_nn.loc(fv), pe_nn.qual, src(val)[:80],
                  "parse_entity derives the non-negative flag from %s: the empty element <non_negative/> is parsed to None, so the flag is never set and a "
                  "uniflow is never wrapped in max(0, .)" % (src(by_value[0])[:50] if by_value else src(val)[:50]), key="NONNEG/parse_entity/flag-by-value")
    mx = one("max", lambda r: any("len(args) > 1" in c and v for c, v in r.conds))
    txt = render(mx.parts, "t", {role: "A" for role, _ in hole_keys(mx.parts)}, rep_n=2)
    ok = nf(parse_expr(txt)) == nf(parse_expr("max([A_0, A_1])"))
    _arg_filters(idx, res, "NONNEG")
    # "for any dt": the engine sweeps the grid of the model it simulates - the dt the generated equations integrate with is the dt the
    # rows are reported at (shared with C01/C05/C09)
    from .sddsl_templates import _sweep as _engine_sweep
    _engine_sweep(idx, res)
    res.check("NONNEG", "max of two arguments is rendered as max([a, b])", ok, mx.loc, "builtins['max']", txt, "MAX(a, b) is generated as %s" % txt, key="NONNEG/max-template")
    # every scenario of a transpiled model integrates on its own model object (its memo is keyed by time only, not by run spec)
    from .scenarios import model_per_scenario_rule
    model_per_scenario_rule(idx, res, "TIME")

    # ---- graphical functions: explicit x points win over the x scale ------------------------------------------------------------------
    from ..util import implied
    pe_ = idx.func(XMILE, "parse_entity")
    gfvar = None
    for n in walk_no_nested(pe_.node):
        if isinstance(n, ast.Assign) and isinstance(n.targets[0], ast.Name) and isinstance(n.value, ast.Subscript) and const_str(n.value.slice) == "gf":
            gfvar = n.targets[0].id
    def is_gf(e) -> bool:
        """the graphical-function record: a local bound to entity['gf'], or entity['gf'] itself"""
        if isinstance(e, ast.Name):
            return gfvar is not None and e.id == gfvar
        return isinstance(e, ast.Subscript) and const_str(e.slice) == "gf"
    if gfvar is None and not any(is_gf(x) for x in ast.walk(pe_.node)):
        raise AnalysisError("parse_entity: graphical-function block (entity['gf']) not found")

    def guards_of(target):
        out = []

        def rec(stmts, acc):
            for st in stmts:
                if any(x is target for x in ast.walk(st)):
                    if isinstance(st, ast.If) and not any(x is target for x in ast.walk(st.test)):
                        inb = any(x is target for b in st.body for x in ast.walk(b))
                        rec(st.body if inb else st.orelse, acc + implied(st.test, inb))
                    elif isinstance(st, (ast.For, ast.While, ast.With, ast.Try)):
                        rec(list(st.body) + list(getattr(st, "orelse", [])) + [x for h in getattr(st, "handlers", []) for x in h.body] + list(getattr(st, "finalbody", [])), acc)
                    else:
                        out.extend(acc)
                    return
        rec(pe_.node.body, [])
        return out
    xread = [n for n in ast.walk(pe_.node) if isinstance(n, ast.Subscript) and is_gf(n.value) and const_str(n.slice) == "xpts" and isinstance(n.ctx, ast.Load)]
    sread = [n for n in ast.walk(pe_.node) if isinstance(n, ast.Subscript) and is_gf(n.value) and const_str(n.slice) == "xscale"]
    if not xread or not sread:
        raise AnalysisError("parse_entity: reads of gf['xpts'] / gf['xscale'] not found")

    def has_xpts_atom(gs, want):
        return any(isinstance(a, ast.Compare) and isinstance(a.ops[0], ast.In) and const_str(a.left) == "xpts" and truth == want for a, truth in gs)
    gx = guards_of(xread[0])
    gs_ = guards_of(sread[0])
    foreign = [a for a, t in gx if not (isinstance(a, ast.Compare) and const_str(getattr(a, "left", None)) in ("xpts", "gf"))]
    res.check("SIBLING", "graphical function: listed x points are used whenever the document lists them", has_xpts_atom(gx, True) and not foreign, pe_.loc(xread[0]), pe_.qual,
              "; ".join("%s=%s" % (src(a), t) for a, t in gx)[:120],
              "gf['xpts'] is read under the conditions [%s]: when the document gives both <xscale> and <xpts> the listed x points are ignored "
              "and the y points are spread evenly over the scale" % "; ".join("%s is %s" % (src(a), t) for a, t in gx), key="SIBLING/parse_entity/xpts-precedence")
    res.check("SIBLING", "graphical function: the x scale is spread only when no x points are listed", has_xpts_atom(gs_, False), pe_.loc(sread[0]), pe_.qual,
              "; ".join("%s=%s" % (src(a), t) for a, t in gs_)[:120],
              "the evenly spread x values are computed under [%s], not under the absence of <xpts>" % "; ".join("%s is %s" % (src(a), t) for a, t in gs_),
              key="SIBLING/parse_entity/xscale-only-without-xpts")

    # ---- (4) LERP vs _lookup -------------------------------------------------------------------------------------------------------------
    methods, failed = jinja_methods(idx)
    if "LERP" not in methods:
        raise AnalysisError("LERP not found in the Jinja template")
    _lookup_shape(methods["LERP"], res, "SIBLING", "LERP", "%s (template)" % JINJA)
    _lookup_shape(idx.func(MODEL, "Model._lookup").node, res, "SIBLING", "Model._lookup", MODEL)
    generated_memoize_snaps(methods, res, "SNAP")
    # ---- (5) time kind ---------------------------------------------------------------------------------------------------------------------
    generated_time_checks(idx, res, "TIME")
    # specs are taken from the IR (dt, start, stop each from its own field)
    m = idx.module(JINJA)
    text = [n.value.value for n in m.tree.body if isinstance(n, ast.Assign) and isinstance(n.value, ast.Constant) and isinstance(n.value.value, str)][0]
    for attr, fld in (("dt", "dt"), ("starttime", "start"), ("stoptime", "stop")):
        ok = re.search(r"self\.%s\s*=\s*\{\{\s*specs\.%s\s*\}\}" % (attr, fld), text) is not None
        res.check("TIME", "generated self.%s = specs.%s" % (attr, fld), ok, "%s (template)" % JINJA, "jinja:simulation_model.__init__", "self.%s = {{specs.%s}}" % (attr, fld),
                  "the generated model does not take %s from the simulation specs' %s" % (attr, fld), key="TIME/jinja:__init__/%s" % attr)


def _ir_tree_calls(node, probes: Dict[str, str]) -> ast.AST:
    """Like _ir_tree but keeps built-in calls as f_<name>(...) and the self reference as SELF."""
    if isinstance(node, dict) and node.get("type") == "identifier":
        return ast.Name(id="SELF", ctx=ast.Load())
    if isinstance(node, dict) and node.get("type") == "call":
        return ast.Call(func=ast.Name(id="f_" + node["name"].lower(), ctx=ast.Load()), args=[_ir_tree_calls(a, probes) for a in node.get("args", [])], keywords=[])
    if isinstance(node, dict) and node.get("type") == "operator":
        n = node["name"].lower()
        if n == "()":
            return _ir_tree_calls(node["args"][0], probes)
        if n in _PY_BIN:
            return ast.BinOp(left=_ir_tree_calls(node["args"][0], probes), op=_PY_BIN[n](), right=_ir_tree_calls(node["args"][1], probes))
        op = {"<": ast.Lt, "<=": ast.LtE, ">": ast.Gt, ">=": ast.GtE, "=": ast.Eq, "<>": ast.NotEq}[n]
        return ast.Compare(left=_ir_tree_calls(node["args"][0], probes), ops=[op()], comparators=[_ir_tree_calls(node["args"][1], probes)])
    return _ir_tree(node, probes)



def _time_shift_builtins(idx: Index, res: Result) -> None:
    """DELAY and INIT move the time argument of an already generated text with re.sub / str.replace.  Their constants are read
    from the source and applied (standard library semantics, no repository code runs) to sample texts built from the
    extracted identifier template."""
    pe = _parse_expression(idx)
    idtmpl = None
    for n in ast.walk(pe.node):
        if isinstance(n, ast.Return) and isinstance(n.value, ast.Call) and call_name(n.value) == "format" and "self.memoize" in src(n.value.func.value):
            idtmpl = n.value.func.value.value
    if idtmpl is None:
        raise AnalysisError("parseExpression: identifier template not found")
    samples = [idtmpl.format("a"), "%s * 2 + t" % idtmpl.format("a"), "max( %s , t )" % idtmpl.format("rate_a")]
    # ---- DELAY ----
    dl = idx.func(PY, "delay")
    pats = {}
    for n in walk_no_nested(dl.node):
        if isinstance(n, ast.Assign) and isinstance(n.targets[0], ast.Name) and isinstance(n.value, ast.Constant) and isinstance(n.value.value, str):
            pats.setdefault(n.targets[0].id, []).append(n.value.value)
    subs = [c for c in iter_calls(dl.node) if call_name(c) == "sub" and call_recv(c) == "re"]
    shift = [c for c in subs if any(isinstance(x, ast.Name) and x.id == "offset" for x in ast.walk(c.args[1]))]
    # the pattern of the shifting substitution: a literal, or a local / module-level name bound to one
    pattern = None
    if len(shift) == 1 and shift[0].args:
        p0 = shift[0].args[0]
        if isinstance(p0, ast.Constant) and isinstance(p0.value, str):
            pattern = p0.value
        elif isinstance(p0, ast.Name) and p0.id in pats:
            pattern = pats[p0.id][-1]
        elif isinstance(p0, ast.Name):
            # clean = re.compile(pattern)
            for a_ in walk_no_nested(dl.node):
                if isinstance(a_, ast.Assign) and isinstance(a_.targets[0], ast.Name) and a_.targets[0].id == p0.id and isinstance(a_.value, ast.Call) \
                        and call_name(a_.value) == "compile" and a_.value.args:
                    q0 = a_.value.args[0]
                    if isinstance(q0, ast.Constant) and isinstance(q0.value, str):
                        pattern = q0.value
                    elif isinstance(q0, ast.Name) and q0.id in pats:
                        pattern = pats[q0.id][-1]
    if pattern is None:
        raise AnalysisError("delay(): time-shift rewrite not found")

    def build_repl(e: ast.AST, offset_text: str) -> str:
        if isinstance(e, ast.Constant):
            return e.value
        if isinstance(e, ast.BinOp) and isinstance(e.op, ast.Add):
            return build_repl(e.left, offset_text) + build_repl(e.right, offset_text)
        if isinstance(e, ast.Call) and call_name(e) == "str" and src(e.args[0]) == "offset":
            return offset_text
        if isinstance(e, ast.Name) and e.id == "offset":
            return offset_text
        raise AnalysisError("delay(): replacement %r not understood" % src(e))
    for off in ("o1 + o2", "2.0"):
        repl = build_repl(shift[0].args[1], off)
        for smp in samples:
            out = re.sub(re.compile(pattern), repl, smp)
            want = re.sub(r"(?<![A-Za-z_.])t(?![A-Za-z_.])", "(t - (%s))" % off, smp)
            try:
                ok = nf(parse_expr(out)) == nf(parse_expr(want))
            except SyntaxError:
                ok = False
            res.check("SHIFT", "DELAY moves every t of %s by (%s)" % (smp[:40], off), ok, dl.loc(shift[0]), "delay", "%s -> %s" % (smp[:50], out[:70]),
                      "DELAY(x, offset) rewrites '%s' to '%s'; every occurrence of the time must become t - (offset) with the offset kept as a "
                      "unit" % (smp[:60], out[:80]), key="SHIFT/delay/%s/%s" % (smp[:25], off))
    rets = [n for n in walk_no_nested(dl.node) if isinstance(n, ast.Return)]
    ok = len(rets) == 1 and "self.delay( {},{},{},t)" in src(rets[0].value).replace("'", "").replace('"', "") and \
        [src(a) for c in ast.walk(rets[0].value) if isinstance(c, ast.Call) and call_name(c) == "format" for a in c.args] == ["tDelayed", "offset", "initial"]
    res.check("SHIFT", "DELAY is emitted as self.delay(shifted, offset, initial, t)", ok, dl.loc(), "delay", src(rets[0].value)[:100] if rets else "",
              "DELAY is emitted as %s" % (src(rets[0].value)[:90] if rets else "?"), key="SHIFT/delay/emit")
    methods, _ = jinja_methods(idx)
    dm = methods.get("delay")
    ok = False
    if dm is not None:
        ps = [a.arg for a in dm.args.args]          # self, tdelayed, offset, initial, t
        ifs = [n for n in dm.body if isinstance(n, ast.If)]
        if len(ifs) == 1 and len(ps) == 5:
            t = ifs[0].test
            rt = [x for x in ast.walk(ifs[0]) if isinstance(x, ast.Return)]
            ok = nf(t) == nf("(%s - self.starttime) < %s" % (ps[4], ps[2])) and len(rt) == 2 and \
                src(ifs[0].body[0].value) == ps[3] and src(ifs[0].orelse[0].value) == ps[1]
    res.check("SHIFT", "generated delay(): initial before start+offset, shifted input afterwards", ok, "%s (template)" % JINJA, "jinja:simulation_model.delay",
              src(dm)[:120] if dm is not None else "", "the generated delay() helper does not return the initial value while t - start < offset and the "
              "shifted input afterwards", key="SHIFT/jinja:delay")
    # ---- INIT ----
    _, bis, _ = py_tables(idx)
    init = [v for k, v in zip(bis.keys, bis.values) if const_str(k) == "init"]
    if len(init) != 1 or not isinstance(init[0], ast.Lambda):
        raise AnalysisError("builtins['init'] not found")
    body = init[0].body
    ok = isinstance(body, ast.Call) and call_name(body) == "replace" and len(body.args) == 2 and all(isinstance(a, ast.Constant) for a in body.args)
    if ok:
        a, b = body.args[0].value, body.args[1].value
        for smp in samples[:2]:
            out = smp.replace(a, b)
            want = re.sub(r",\s*t\)", ", self.starttime)", smp)
            try:
                good = nf(parse_expr(out)) == nf(parse_expr(want))
            except SyntaxError:
                good = False
            res.check("SHIFT", "INIT reads %s at the start time" % smp[:40], good, "%s:%d" % (PY, init[0].lineno), "builtins['init']", "%s -> %s" % (smp[:50], out[:60]),
                      "INIT(x) rewrites '%s' to '%s'; every memo lookup must move to self.starttime" % (smp[:60], out[:70]), key="SHIFT/init/%s" % smp[:25])
    else:
        raise AnalysisError("builtins['init'] has an unrecognised shape")
