"""C10: arrayed equations - element-wise templates, dot-product case table and
index patterns, aggregate/numpy table."""
from __future__ import annotations

import ast
from typing import Dict, List, Optional, Set, Tuple

from ..core import AnalysisError, FuncInfo, Index, Result, call_name, dotted, iter_calls, norm_stmt, src, walk_no_nested
from ..nf import nf
from ..templates import Rep, hole_keys, parts_text
from ..util import params
from .sddsl_templates import (C02_VOCAB, ELEMENT, OPS, _r1_table, _r2, ctor_guards, dsl_renderers, inner_texts,
                              operator_identity)

ARRAY_CLASSES = {"AdditionOperator", "SubtractionOperator", "MultiplicationOperator", "DivisionOperator",
                 "NumericalMultiplicationOperator", "DotOperator", "ArraySumOperator", "ArrayProductOperator",
                 "ArrayMeanOperator", "ArrayMedianOperator", "ArrayStandardDeviationOperator", "ArrayRankOperator",
                 "ArraySizeOperator"}
ELEMENT_METHODS = {"arr_sum": "ArraySumOperator", "arr_prod": "ArrayProductOperator", "arr_rank": "ArrayRankOperator",
                   "arr_mean": "ArrayMeanOperator", "arr_median": "ArrayMedianOperator",
                   "arr_stddev": "ArrayStandardDeviationOperator", "arr_size": "ArraySizeOperator", "dot": "DotOperator"}

VEC = "len(dimX) == 1 or dimX[1] == 0"


def _is_vec_test(t: ast.AST) -> Optional[str]:
    s = " ".join(src(t).split())
    for d in ("dim1", "dim2"):
        if s == VEC.replace("dimX", d):
            return d
    return None


def _ancestors(root: ast.AST, target: ast.AST) -> List[Tuple[ast.If, bool]]:
    """(If, in_body?) chain from *root* down to *target*."""
    out: List[Tuple[ast.If, bool]] = []

    def rec(n: ast.AST, chain) -> bool:
        if n is target:
            out.extend(chain)
            return True
        if isinstance(n, ast.If):
            for b in n.body:
                if rec(b, chain + [(n, True)]):
                    return True
            for b in n.orelse:
                if rec(b, chain + [(n, False)]):
                    return True
            return False
        for c in ast.iter_child_nodes(n):
            if isinstance(c, (ast.FunctionDef, ast.Lambda)) and c is not root:
                continue
            if rec(c, chain):
                return True
        return False
    rec(root, [])
    return out


def _idx_shape(e: ast.AST, k: str) -> Tuple[str, List[str]]:
    """Shape of an index list literal relative to the summation variable k: 'k', 'kX', 'Xk'."""
    if not isinstance(e, ast.List):
        return "?", []
    shape = ""
    others = []
    for x in e.elts:
        if isinstance(x, ast.Name) and x.id == k:
            shape += "k"
        else:
            shape += "X"
            others.append(src(x))
    return shape, others


def _reindex_rule(idx: Index, res: Result) -> None:
    """REINDEX: Operator.arrayed_term(index, time) renders the operand at *index* - the summation index of the enclosing dot product -
    whatever index the operand carried before (a clone made by clone_with_index carries the result index), and puts the previous
    index back afterwards.  Decided on the flow graph: the last store to self.index before self.term(...) is the parameter itself."""
    from ..cfg import Flow, build_cfg
    fi = idx.func(OPS, "Operator.arrayed_term")
    ps = params(fi.node)
    if len(ps) < 2:
        raise AnalysisError("Operator.arrayed_term has no index parameter")
    ip = ps[1]
    cfg = build_cfg(fi.node, fi.qual)

    def transfer(node, fact, label):
        if node.kind == "stmt" and label != "exc" and isinstance(node.ast, ast.Assign):
            for t in node.ast.targets:
                if dotted(t) == "self.index":
                    return [src(node.ast.value)]
        return [fact]
    flow = Flow(cfg, ["<entry>"], transfer)
    calls = [n for n in cfg.stmt_nodes() if n.ast is not None and any(isinstance(c, ast.Call) and call_name(c) == "term" and dotted(c.func.value) == "self"
                                                                       for c in ast.walk(n.ast))]
    if not calls:
        raise AnalysisError("Operator.arrayed_term does not call self.term()")
    for n in calls:
        facts = flow.at[n.id]
        ok = bool(facts) and all(f == ip for f in facts)
        res.check("REINDEX", "arrayed_term renders the operand at the index it is given", ok, fi.loc(n.ast), fi.qual, norm_stmt(n.ast)[:80],
                  "while the term is built self.index is %s, not the parameter %s: an operand that already carries an index (a clone made for the "
                  "result index) keeps it, so a dot product over an arrayed expression sums the wrong members" % (sorted(facts), ip),
                  key="REINDEX/Operator.arrayed_term/index-in-force")
    saved = [n.targets[0].id for n in walk_no_nested(fi.node) if isinstance(n, ast.Assign) and isinstance(n.targets[0], ast.Name) and dotted(n.value) == "self.index"]
    out = flow.at[cfg.exit]
    ok = bool(saved) and bool(out) and all(f in saved for f in out)
    res.check("REINDEX", "arrayed_term puts the previous index back", ok, fi.loc(), fi.qual, "self.index = <saved>",
              "on leaving arrayed_term self.index is %s, not the saved previous index" % sorted(out), key="REINDEX/Operator.arrayed_term/restore")


def check_c10(idx: Index, tier: str, res: Result) -> None:
    res.explanation = ("Static decision of the arrayed-equation generator: (a) hole-safety, time pass-through and operator identity "
                       "of every arrayed return path of + - * /, scalar multiply, dot and the aggregates; both operands of an "
                       "element-wise operator walk the same index; (b) DotOperator.resolve_dimensions (the acceptance gate) has the "
                       "four shape guards, each ending in a raise, and the right result dimensions, and DotOperator.term's guards "
                       "agree with it (sibling check); (c) the summation loops have the index patterns A[i][k]*B[k], A[k]*B[k][j], "
                       "A[i][k]*B[k][j], A[k]*B[k] with the shared dimension as bound, each under its own case; (d) aggregate class "
                       "<-> numpy function / join operator table and Element.arr_* -> class table.")
    res.rules = ["R1/R2/OPID on arrayed templates", "INDEXWALK: for i in self.index", "GUARDS: shape guards and result dimensions",
                 "SUMIDX: index pattern and bound of each product loop", "AGG: aggregate table"]
    res.not_decided = ["element values against numpy for all shapes (numeric)", "np.mean/np.median/np.std themselves"]
    renderers, stats = dsl_renderers(idx, res)
    vocab = set(C02_VOCAB)
    inners = inner_texts(renderers, vocab)
    guards = ctor_guards(idx)
    arr_renderers = [r for r in renderers if r.cls in ARRAY_CLASSES]
    res.floor("arrayed return paths", len(arr_renderers), 50)
    _reindex_rule(idx, res)
    _r1_table(res, arr_renderers, ARRAY_CLASSES, inners, tier, "R1", "C10", guards)
    _r2(idx, res, arr_renderers, floor=60)
    operator_identity(res, arr_renderers, ARRAY_CLASSES)

    # ---- both operands walk the same index ------------------------------------------------------
    nwalk = 0
    walked = set()
    for cname in ("AdditionOperator", "SubtractionOperator", "MultiplicationOperator", "DivisionOperator",
                  "NumericalMultiplicationOperator"):
        fi = idx.func(OPS, "%s.term" % cname)
        for lp in [n for n in walk_no_nested(fi.node) if isinstance(n, ast.For)]:
            body = lp.body
            if len(body) == 1 and isinstance(body[0], ast.Assign) and isinstance(body[0].value, ast.Subscript):
                nwalk += 1
                walked.add(cname)
                ok = src(lp.iter) == "self.index" and isinstance(lp.target, ast.Name) and src(body[0].value.slice) == lp.target.id \
                    and src(body[0].targets[0]) == src(body[0].value.value)
                res.check("INDEXWALK", "%s: %s" % (cname, norm_stmt(lp)[:60]), ok, fi.loc(lp), fi.qual, norm_stmt(lp)[:100],
                          "an operand of the element-wise %s is not resolved with the operator's own index" % cname,
                          key="INDEXWALK/%s/%s" % (cname, norm_stmt(lp)[:60]))
    res.floor("element-wise operators whose term() walks the index", len(walked), 5)

    # ---- (b) guards of resolve_dimensions ------------------------------------------------------------
    rd = idx.func(OPS, "DotOperator.resolve_dimensions")
    term = idx.func(OPS, "DotOperator.term")

    CASES = {"scalar": dict(S1=True, S2=True, V1=False, V2=False), "s1": dict(S1=True, S2=False, V1=False, V2=False),
             "s2": dict(S1=False, S2=True, V1=False, V2=False), "vv": dict(S1=False, S2=False, V1=True, V2=True),
             "vm": dict(S1=False, S2=False, V1=True, V2=False), "mv": dict(S1=False, S2=False, V1=False, V2=True),
             "mm": dict(S1=False, S2=False, V1=False, V2=False)}

    def case_paths(fi: FuncInfo, val: Dict[str, bool], on_loop=None):
        """Paths of *fi* consistent with one shape case.  Case tests (dimX == -1, `len(dimX) == 1 or dimX[1] == 0`, boolean locals
        and and/or/not of these) are decided by the valuation; a test whose body raises is a *guard* (recorded, then assumed to
        pass); any other test forks.  Yields (guards, ('return', text) | ('raise',) | ('end',))."""
        def evalb(e, env):
            if isinstance(e, ast.Name):
                return env.get(e.id)
            v = _is_vec_test(e)
            if v:
                return val["V1" if v == "dim1" else "V2"]
            t = " ".join(src(e).split())
            for d, k in (("dim1", "S1"), ("dim2", "S2")):
                if t in ("%s == -1" % d, "%s is -1" % d, "-1 == %s" % d):
                    return val[k]
                if t in ("%s != -1" % d, "%s is not -1" % d):
                    return not val[k]
            if isinstance(e, ast.BoolOp):
                vs = [evalb(x, env) for x in e.values]
                if isinstance(e.op, ast.And):
                    if any(x is False for x in vs):
                        return False
                    return True if all(x is True for x in vs) else None
                if any(x is True for x in vs):
                    return True
                return False if all(x is False for x in vs) else None
            if isinstance(e, ast.UnaryOp) and isinstance(e.op, ast.Not):
                x = evalb(e.operand, env)
                return None if x is None else (not x)
            return None

        def run(stmts, env, guards, depth=0):
            """returns list of (guards, outcome) for the paths through stmts; outcome None = falls through"""
            if not stmts:
                return [(guards, None, env)]
            s0, rest = stmts[0], stmts[1:]
            if isinstance(s0, ast.Return):
                return [(guards, ("return", " ".join(src(s0.value).split()), s0), env)]
            if isinstance(s0, ast.Raise):
                return [(guards, ("raise",), env)]
            if isinstance(s0, ast.Assign) and len(s0.targets) == 1 and isinstance(s0.targets[0], ast.Name):
                v = evalb(s0.value, env)
                env = dict(env)
                if v is not None:
                    env[s0.targets[0].id] = v
                else:
                    env.pop(s0.targets[0].id, None)
                return run(rest, env, guards, depth)
            if isinstance(s0, ast.If):
                v = evalb(s0.test, env)
                branches = []
                if v is None and any(isinstance(x, ast.Raise) for x in s0.body):
                    # a guard: record it; the accepted run continues on the other side
                    g2 = guards + [(" ".join(src(s0.test).split()), s0)]
                    branches = [(s0.orelse, g2)]
                elif v is None:
                    branches = [(s0.body, guards), (s0.orelse, guards)]
                else:
                    branches = [(s0.body if v else s0.orelse, guards)]
                out = []
                for blk, g in branches:
                    for gg, oc, e2 in run(list(blk), env, g, depth + 1):
                        if oc is None:
                            out += run(rest, e2, gg, depth)
                        else:
                            out.append((gg, oc, e2))
                return out[:64]
            if isinstance(s0, (ast.For, ast.While, ast.With, ast.Try)):
                # bodies are walked for guards/returns; a loop may also run zero times
                if on_loop is not None and isinstance(s0, (ast.For, ast.While)):
                    on_loop(s0)
                inner = run(list(s0.body), env, guards, depth + 1)
                out = []
                for gg, oc, e2 in inner:
                    if oc is None or isinstance(s0, (ast.For, ast.While)):
                        out += run(rest, env, gg, depth)
                    if oc is not None:
                        out.append((gg, oc, e2))
                return out[:64]
            return run(rest, env, guards, depth)
        return [(g, oc) for g, oc, _ in run(list(fi.node.body), {}, [])]

    def guard_table(fi: FuncInfo) -> Dict[str, List[str]]:
        out: Dict[str, List[str]] = {}
        for case, val in CASES.items():
            seen_g = []
            for guards, oc in case_paths(fi, val):
                for g, _node in guards:
                    if g not in seen_g:
                        seen_g.append(g)
            out[case if case not in ("s1", "s2") else "scalar-mixed"] = out.get(case if case not in ("s1", "s2") else "scalar-mixed", []) + seen_g
        return out
    g_rd = guard_table(rd)
    g_term = guard_table(term)
    REQ = {"vv": {"dim1[0] != dim2[0]", "dim2[0] != dim1[0]"},
           "vm": {"dim1[0] != dim2[0]", "dim2[0] != dim1[0]"},
           "mv": {"dim1[1] != dim2[0]", "dim2[0] != dim1[1]"},
           "mm": {"dim1[1] != dim2[0]", "dim2[0] != dim1[1]"}}
    for case, accepted in REQ.items():
        have = [g for g in g_rd.get(case, []) if g in accepted]
        res.check("GUARDS", "resolve_dimensions rejects mismatched %s shapes" % case, bool(have), rd.loc(), rd.qual,
                  "; ".join(g_rd.get(case, [])) or "no guard",
                  "DotOperator.resolve_dimensions (which decides whether an arrayed dot equation is accepted) has no raise for "
                  "mismatched %s shapes (guards found: %s): mismatched operands would yield values" % (case, g_rd.get(case, [])),
                  key="GUARDS/resolve_dimensions/%s" % case)
        # sibling agreement: a shape guard in term() for the same case must be one of the accepted forms
        shape_guards = [g for g in g_term.get(case, []) if "dim1" in g and "dim2" in g and "index" not in g]
        for g in shape_guards:
            res.check("GUARDS", "term() guard for %s agrees with resolve_dimensions" % case, g in accepted, term.loc(), term.qual, g,
                      "DotOperator.term guards the %s case with '%s' while resolve_dimensions requires %s" % (case, g, sorted(accepted)),
                      key="GUARDS/term/%s/%s" % (case, g))
    sc_paths = case_paths(rd, CASES["scalar"])
    res.check("GUARDS", "value . value is rejected", bool(sc_paths) and all(oc == ("raise",) for _, oc in sc_paths), rd.loc(), rd.qual,
              "; ".join(str(oc[:2]) for _, oc in sc_paths)[:120], "a dot product of two plain values is not rejected", key="GUARDS/resolve_dimensions/scalar")
    # result dimensions
    rets = []
    for case, val in CASES.items():
        if case == "scalar":
            continue
        for guards, oc in case_paths(rd, val):
            if oc and oc[0] == "return":
                rets.append((case, oc[1], oc[2]))
    WANT = {"s1": "dim2", "s2": "dim1", "vv": "-1", "vm": "[dim2[1]]", "mv": "[dim1[0]]", "mm": "[dim1[0], dim2[1]]"}
    got: Dict[str, str] = {}
    for c, v, _ in rets:
        got[c] = v if got.get(c, v) == v else "%s | %s" % (got[c], v)
    for case, want in WANT.items():
        res.check("GUARDS", "result dimensions of case %s = %s" % (case, want), got.get(case) == want, rd.loc(), rd.qual,
                  "return %s" % got.get(case), "resolve_dimensions answers %s for the %s case, numpy's result shape is %s"
                  % (got.get(case), case, want), key="GUARDS/resolve_dimensions/result-%s" % case)
    # the If bodies of the case tests end in return/raise (no fall-through into the next case)
    for fi in (rd, term):
        for n in fi.node.body:
            if isinstance(n, ast.If) and (_is_vec_test(n.test) or " ".join(src(n.test).split()) in ("dim1 == -1", "dim2 == -1")):
                last = n.body[-1]
                ok = isinstance(last, (ast.Return, ast.Raise))
                res.check("GUARDS", "%s: case '%s' does not fall through" % (fi.name, src(n.test)[:30]), ok, fi.loc(n), fi.qual,
                          norm_stmt(last)[:80], "the case '%s' of %s falls through into the next case" % (src(n.test), fi.qual),
                          key="GUARDS/%s/fallthrough/%s" % (fi.name, " ".join(src(n.test).split())))

    # ---- (c) summation loops ---------------------------------------------------------------------------
    LEGAL = {("k", "k"): ("vv", {"dim1[0]", "dim2[0]"}), ("k", "kX"): ("vm", {"dim2[0]", "dim1[0]"}),
             ("Xk", "k"): ("mv", {"dim1[1]", "dim2[0]"}), ("Xk", "kX"): ("mm", {"dim1[1]", "dim2[0]"})}
    seen_cases: Set[str] = set()
    nloops = 0
    loop_cases: Dict[str, Set[int]] = {}
    for c_ in ("vv", "vm", "mv", "mm"):
        hit: Set[int] = set()
        case_paths(term, CASES[c_], on_loop=lambda l_, hit=hit: hit.add(id(l_)))
        loop_cases[c_] = hit
    for lp in [n for n in walk_no_nested(term.node) if isinstance(n, ast.For)]:
        if not (isinstance(lp.iter, ast.Call) and call_name(lp.iter) == "range" and isinstance(lp.target, ast.Name)):
            continue
        k = lp.target.id
        bound = " ".join(src(lp.iter.args[-1]).split())
        calls = [c for c in iter_calls(lp) if call_name(c) in ("_get_sub_element_term", "term")]
        subs = [c for c in calls if call_name(c) == "_get_sub_element_term"]
        if subs:
            if len(subs) != 2:
                raise AnalysisError("product loop with %d sub-element terms" % len(subs))
            a1 = [c for c in subs if src(c.args[0]) == "self.element_1"]
            a2 = [c for c in subs if src(c.args[0]) == "self.element_2"]
            if len(a1) != 1 or len(a2) != 1:
                raise AnalysisError("product loop does not multiply element_1 by element_2")
            s1, o1 = _idx_shape(a1[0].args[1], k)
            s2, o2 = _idx_shape(a2[0].args[1], k)
        else:
            # vector . vector: self.element_1[i].term(time) * self.element_2[i].term(time)
            t1 = [c for c in calls if src(c.func.value) == "self.element_1[%s]" % k]
            t2 = [c for c in calls if src(c.func.value) == "self.element_2[%s]" % k]
            if len(t1) != 1 or len(t2) != 1:
                continue
            s1, o1, s2, o2 = "k", [], "k", []
        nloops += 1
        legal = LEGAL.get((s1, s2))
        reach = sorted(c_ for c_ in ("vv", "vm", "mv", "mm") if id(lp) in loop_cases.get(c_, set()))
        if len(reach) != 1:
            raise AnalysisError("product loop at %s is reachable under the shape cases %s" % (term.loc(lp), reach))
        where_case = reach[0]
        ok = legal is not None and legal[0] == where_case and bound in legal[1]
        res.check("SUMIDX", "%s loop: A%s * B%s over range(%s)" % (where_case, s1, s2, bound), ok, term.loc(lp), term.qual,
                  norm_stmt(lp)[:160],
                  "the %s product loop multiplies A[%s] by B[%s] over range(%s): numpy's %s product sums A[..k] * B[k..] over "
                  "the shared dimension %s" % (where_case, s1, s2, bound, where_case, sorted(LEGAL[{"vv": ("k", "k"), "vm": ("k", "kX"),
                                                                                              "mv": ("Xk", "k"), "mm": ("Xk", "kX")}[where_case]][1])),
                  key="SUMIDX/%s/A%s-B%s-%s" % (where_case, s1, s2, bound))
        if where_case == "mm" and ok:
            ok2 = o1 == ["self.index[0]"] and o2 == ["self.index[1]"]
            res.check("SUMIDX", "mm loop: row from index[0], column from index[1]", ok2, term.loc(lp), term.qual, "%s / %s" % (o1, o2),
                      "matrix-matrix element (i,j) is computed from row %s and column %s" % (o1, o2), key="SUMIDX/mm/row-col")
        if where_case in ("vm", "mv") and ok:
            other = (o2 if where_case == "vm" else o1)
            ok2 = other == ["index"]
            res.check("SUMIDX", "%s loop: free index is the operator's index" % where_case, ok2, term.loc(lp), term.qual, str(other),
                      "the free index of the %s product is %s" % (where_case, other), key="SUMIDX/%s/free-index" % where_case)
        seen_cases.add(where_case)
        # products are summed: the accumulated piece is "(a) * (b) + "
        accs = [n for n in ast.walk(lp) if isinstance(n, ast.AugAssign) and isinstance(n.value, ast.Call) and call_name(n.value) == "format"]
        okf = len(accs) == 1 and isinstance(accs[0].value.func.value, ast.Constant) and \
            nf(accs[0].value.func.value.value.replace("{}", "q").rstrip().rstrip("+")) == nf("q*q")
        res.check("SUMIDX", "%s loop sums products" % where_case, okf, term.loc(lp), term.qual,
                  src(accs[0].value.func.value) if accs else "", "the loop does not accumulate '(a) * (b) + '", key="SUMIDX/%s/accumulate" % where_case)
    res.floor("product loops in DotOperator.term", nloops, 5)
    res.check("SUMIDX", "all four product forms present", seen_cases == {"vv", "vm", "mv", "mm"}, term.loc(), term.qual, str(sorted(seen_cases)),
              "product forms found: %s" % sorted(seen_cases), key="SUMIDX/forms")

    # ---- (d) aggregates -----------------------------------------------------------------------------------
    el = idx.cls(ELEMENT, "Element")
    for meth, cls in ELEMENT_METHODS.items():
        defs = el.methods.get(meth)
        if not defs:
            raise AnalysisError("anchor vanished: Element.%s" % meth)
        rets = [n for n in walk_no_nested(defs[-1].node) if isinstance(n, ast.Return)]
        ok = len(rets) == 1 and isinstance(rets[0].value, ast.Call) and call_name(rets[0].value) == cls and src(rets[0].value.args[0]) == "self"
        res.check("AGG", "Element.%s builds %s(self, ...)" % (meth, cls), ok, defs[-1].loc(), defs[-1].qual,
                  norm_stmt(rets[0]) if rets else "", "Element.%s builds %s" % (meth, src(rets[0].value) if rets else "?"),
                  key="AGG/Element.%s" % meth)
    # rank: sorted descending, rank-th, clamped to the smallest
    rk = [r for r in renderers if r.cls == "ArrayRankOperator" and hole_keys(r.parts)]
    if not rk:
        raise AnalysisError("ArrayRankOperator template not extracted")
    for r in rk:
        t = parts_text(r.parts)
        ok = t.startswith("sorted([") and "reverse=True" in t and "-1" in t
        res.check("AGG", "rank = sorted descending [rank-1]", ok, r.fi.loc(), r.fi.qual, t[:120], "the rank template is %s" % t[:100],
                  key="AGG/ArrayRankOperator/shape")
    # the rank's clamp must know the number of *all* elements (rows x columns), the list must be the flat element list
    rkf = idx.func(OPS, "ArrayRankOperator.term")
    fmts = [c for c in iter_calls(rkf.node) if call_name(c) == "format" and isinstance(c.func.value, ast.Constant) and "sorted(" in str(c.func.value.value)]
    if len(fmts) != 1:
        raise AnalysisError("ArrayRankOperator.term: rank template not found")
    kw = {k.arg: k.value for k in fmts[0].keywords}
    tmpl = fmts[0].func.value.value
    try:
        shape_ok = nf(tmpl.format(arr="ARR", rank="RANK", count="COUNT")) == nf("sorted(ARR, reverse=True)[(COUNT - 1 if (RANK < 0 or RANK > COUNT) else RANK - 1)]")
    except (KeyError, IndexError, SyntaxError):
        shape_ok = False
    res.check("AGG", "rank template = descending sort, rank-th entry, clamped to the smallest", shape_ok, rkf.loc(fmts[0]), rkf.qual, tmpl[:110],
              "the rank template is '%s'" % tmpl[:100], key="AGG/ArrayRankOperator/template")
    assigns = {}
    for n in walk_no_nested(rkf.node):
        if isinstance(n, ast.Assign) and isinstance(n.targets[0], ast.Name):
            assigns.setdefault(n.targets[0].id, []).append(n.value)

    def resolve(e):
        if isinstance(e, ast.Name) and len(assigns.get(e.id, [])) == 1:
            return assigns[e.id][0]
        return e
    cnt = resolve(kw.get("count"))
    ms = [k for k, v in assigns.items() if any(isinstance(x, ast.Call) and call_name(x) == "matrix_size" for x in v)]
    # the two components of matrix_size(): size[0] / size[1], or the names it is unpacked into (rows, columns = ...matrix_size())
    comp = {0: set(), 1: set()}
    for m_ in ms:
        comp[0].add("%s[0]" % m_)
        comp[1].add("%s[1]" % m_)
    for n in walk_no_nested(rkf.node):
        if isinstance(n, ast.Assign) and isinstance(n.targets[0], (ast.Tuple, ast.List)) and len(n.targets[0].elts) == 2 \
                and isinstance(n.value, ast.Call) and call_name(n.value) == "matrix_size" and all(isinstance(e, ast.Name) for e in n.targets[0].elts):
            comp[0].add(n.targets[0].elts[0].id)
            comp[1].add(n.targets[0].elts[1].id)
            ms = ms or ["(%s, %s)" % (n.targets[0].elts[0].id, n.targets[0].elts[1].id)]
    ok = cnt is not None and isinstance(cnt, ast.BinOp) and isinstance(cnt.op, ast.Mult) and (
        (src(cnt.left) in comp[0] and src(cnt.right) in comp[1]) or (src(cnt.left) in comp[1] and src(cnt.right) in comp[0]))
    res.check("AGG", "rank clamps against rows x columns", ok, rkf.loc(fmts[0]), rkf.qual, "count=%s" % (src(cnt) if cnt is not None else "?"),
              "the rank is clamped against %s, not against the number of all elements (rows x columns): on a matrix every rank larger than "
              "that silently returns a different entry" % (src(cnt) if cnt is not None else "?"), key="AGG/ArrayRankOperator/count")
    fix = [g for g in walk_no_nested(rkf.node) if isinstance(g, ast.If) and any(src(g.test).replace(" ", "") in ("%s<=0" % c_, "%s<1" % c_, "%s==0" % c_) for c_ in comp[1])
           and any(isinstance(b, ast.Assign) and src(b.targets[0]) in comp[1] and isinstance(b.value, ast.Constant) and b.value.value == 1 for b in g.body)]
    res.check("AGG", "a vector counts as one column", bool(fix), rkf.loc(), rkf.qual, "if matrix_size[1] <= 0: matrix_size[1] = 1",
              "the column count of a plain vector (0) is not replaced by 1: the element count of a vector would be 0", key="AGG/ArrayRankOperator/vector-columns")
    arr = resolve(kw.get("arr"))
    ok = isinstance(arr, ast.Call) and call_name(arr) == "_matrix_element_to_string" and len(arr.args) == 3 and src(arr.args[0]) == "self.element" \
        and isinstance(arr.args[2], ast.Constant) and arr.args[2].value is True
    res.check("AGG", "rank sorts the flat list of all elements", ok, rkf.loc(), rkf.qual, src(arr)[:80] if arr is not None else "",
              "the rank does not sort the flattened element list", key="AGG/ArrayRankOperator/flat-list")
    okr = isinstance(kw.get("rank"), ast.Attribute) and src(kw["rank"]) == "self.rank"
    res.check("AGG", "rank argument is the operator's rank", okr, rkf.loc(), rkf.qual, src(kw.get("rank")) if kw.get("rank") is not None else "",
              "the rank placeholder is filled from %s" % (src(kw.get("rank")) if kw.get("rank") is not None else "?"), key="AGG/ArrayRankOperator/rank-arg")
    sz = idx.func(OPS, "ArraySizeOperator.term")
    ok = any(call_name(c) == "vector_size" for c in iter_calls(sz.node))
    res.check("AGG", "size = number of sub-elements", ok, sz.loc(), sz.qual, "vector_size()", "ArraySizeOperator does not report vector_size()",
              key="AGG/ArraySizeOperator/shape")
    res.extra.update(stats)
    res.floor("index-axis agreement sites (loop variable over dims[k] used at position k)", _axis_agreement(idx, res), 4)

    # ---- element-wise operators: two arrays are accepted only when their shapes are equal (siblings + - * /) ----------------------------
    both = dict(S1=False, S2=False, V1=False, V2=False)
    nel = 0
    for cname in ("AdditionOperator", "SubtractionOperator", "MultiplicationOperator", "DivisionOperator"):
        rdf = idx.try_func(OPS, "%s.resolve_dimensions" % cname)
        if rdf is None:
            raise AnalysisError("anchor vanished: %s.resolve_dimensions" % cname)
        nel += 1
        unguarded = [oc for guards, oc in case_paths(rdf, both) if oc and oc[0] == "return"
                     and not any(g.replace(" ", "") in ("dim1!=dim2", "dim2!=dim1", "(dim1!=dim2)", "notdim1==dim2") for g, _ in guards)]
        res.check("GUARDS", "%s accepts two arrays only when their shapes are equal" % cname, not unguarded, rdf.loc(unguarded[0][2]) if unguarded else rdf.loc(),
                  rdf.qual, "return %s" % unguarded[0][1] if unguarded else "if dim1 != dim2: raise",
                  "%s.resolve_dimensions can answer %s for two arrayed operands without having compared their shapes: an element-wise equation over "
                  "arrays of different shapes is accepted and yields values for the shape of the left operand"
                  % (cname, unguarded[0][1] if unguarded else ""), key="GUARDS/%s.resolve_dimensions/unchecked-shapes" % cname)
    res.floor("element-wise resolve_dimensions siblings", nel, 4)

    # ---- clones keep their class: x.arr_median() inside an arrayed equation is still a median in every per-index clone -----------------
    from ..util import deref as _deref
    ncl = 0
    for cname, ci in idx.module(OPS).classes.items():
        if "clone_with_index" not in ci.methods:
            continue
        cf = ci.methods["clone_with_index"][-1]
        for r_ in [x for x in walk_no_nested(cf.node) if isinstance(x, ast.Return) and x.value is not None]:
            v = _deref(cf.node, r_.value)
            if not isinstance(v, ast.Call):
                continue
            built = call_name(v)
            if built in ("type", "__class__") or isinstance(v.func, ast.Call):
                continue               # type(self)(...) / self.__class__(...)
            if built is None or built not in idx.module(OPS).classes:
                continue
            ncl += 1
            res.check("AGG", "%s.clone_with_index builds a %s" % (cname, cname), built == cname, cf.loc(v), cf.qual, src(v)[:80],
                      "%s.clone_with_index builds a %s: inside an arrayed equation every per-index clone computes %s instead of %s"
                      % (cname, built, built, cname), key="AGG/%s.clone_with_index/class" % cname)
    res.floor("clone_with_index constructions", ncl, 10)

    # ---- shape queries are recomputed: an array grows after it was first used (m[i][n] = v, a new dot operand) ---------------------------
    ae = idx.module(OPS).classes.get("ArrayedEquation")
    if ae is None:
        raise AnalysisError("anchor vanished: ArrayedEquation")
    nq = 0
    for mname in ("matrix_size", "vector_size"):
        if mname not in ae.methods:
            continue
        qf = ae.methods[mname][-1]
        nq += 1
        st = [x for x in ast.walk(qf.node) if isinstance(x, ast.Attribute) and isinstance(x.ctx, ast.Store) and isinstance(x.value, ast.Name) and x.value.id == "self"]
        res.check("GUARDS", "ArrayedEquation.%s computes the shape from the current members" % mname, not st, qf.loc(st[0]) if st else qf.loc(), qf.qual,
                  src(st[0]) if st else "", "ArrayedEquation.%s stores %s: a shape remembered on the object outlives the shape - rows that gain a column "
                  "(or a member assigned later) are not seen by dot products, element-wise operators and rank" % (mname, src(st[0]) if st else ""),
                  key="GUARDS/ArrayedEquation.%s/cached-shape" % mname)
    res.floor("shape queries of ArrayedEquation", nq, 2)


def _axis_agreement(idx: Index, res: Result) -> int:
    """AXIS: in the expansion loops of an arrayed equation a variable that ranges over ``range(D[k])`` addresses axis k: it stands at
    position k of ``X[i][j]`` and of the index list ``[i, j]`` handed to clone_with_index.  A variable over the wrong axis leaves part
    of a non-square result without equation (or addresses entries that do not exist)."""
    n_inst = 0
    for rel in (ELEMENT, OPS):
        for fi in idx.module(rel).functions.values():
            axis: Dict[str, Tuple[str, int, ast.AST]] = {}
            for lp in [n for n in walk_no_nested(fi.node) if isinstance(n, ast.For)]:
                it = lp.iter
                if isinstance(lp.target, ast.Name) and isinstance(it, ast.Call) and call_name(it) == "range" and len(it.args) == 1 \
                        and isinstance(it.args[0], ast.Subscript) and isinstance(it.args[0].slice, ast.Constant) and isinstance(it.args[0].slice.value, int):
                    axis_here = (src(it.args[0].value), it.args[0].slice.value, lp)
                    axis[(lp.target.id, id(lp))] = axis_here
            if not axis:
                continue
            # evaluate each use under the loops enclosing it
            def enclosing(node):
                env = {}
                for (v, _), (d, k, lp) in axis.items():
                    if any(x is node for x in ast.walk(lp)):
                        env[v] = (d, k, lp)
                return env
            for kind, node, elts in _index_uses(fi.node):
                env = enclosing(node)
                vs = [e.id if isinstance(e, ast.Name) else None for e in elts]
                if len(vs) < 2 or not all(v in env for v in vs):
                    continue
                ds = {env[v][0] for v in vs}
                if len(ds) != 1:
                    continue
                n_inst += 1
                got = [env[v][1] for v in vs]
                ok = got == list(range(len(vs)))
                res.check("AXIS", "%s: %s addresses axes %s" % (fi.qual, src(node)[:40], got), ok, fi.loc(node), fi.qual, src(node)[:80],
                          "%s is addressed with variables that range over axes %s of %s (expected %s): the loop over `%s` covers the wrong axis, so for "
                          "a non-square result some entries get no equation and others do not exist"
                          % (src(node)[:50], got, sorted(ds)[0], list(range(len(vs))), norm_stmt(env[vs[got.index(next(g for i, g in enumerate(got) if g != i))]][2])[:40] if not ok else ""),
                          key="AXIS/%s/%s" % (fi.qual, kind))
    return n_inst


def _index_uses(root: ast.AST):
    """('subscript', node, [i, j]) for X[i][j] chains and ('list', node, [i, j]) for index-list literals passed to a call."""
    inner = set()
    for n in ast.walk(root):
        if isinstance(n, ast.Subscript) and isinstance(n.value, ast.Subscript):
            inner.add(id(n.value))
    for n in ast.walk(root):
        if isinstance(n, ast.Subscript) and id(n) not in inner and isinstance(n.value, ast.Subscript):
            chain = []
            e = n
            while isinstance(e, ast.Subscript):
                chain.append(e.slice)
                e = e.value
            yield "subscript:%s" % src(e), n, list(reversed(chain))
        if isinstance(n, ast.Call):
            for a in n.args:
                if isinstance(a, ast.List) and len(a.elts) >= 2 and all(isinstance(x, ast.Name) for x in a.elts):
                    yield "list:%s" % (call_name(n) or ""), a, list(a.elts)
