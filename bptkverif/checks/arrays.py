"""C10: arrayed equations - element-wise templates, dot-product case table and
index patterns, aggregate/numpy table."""
from __future__ import annotations

import ast
from typing import Dict, List, Optional, Set, Tuple

from ..core import AnalysisError, FuncInfo, Index, Result, call_name, dotted, iter_calls, norm_stmt, src, walk_no_nested
from ..nf import nf
from ..templates import Rep, hole_keys, parts_text
from ..util import params
from .sddsl_templates import (C02_VOCAB, ELEMENT, OPS, _r1_table, _r2, ctor_guards, dsl_renderers, inner_texts,
                              operator_identity)

ARRAY_CLASSES = {"AdditionOperator", "SubtractionOperator", "MultiplicationOperator", "DivisionOperator",
                 "NumericalMultiplicationOperator", "DotOperator", "ArraySumOperator", "ArrayProductOperator",
                 "ArrayMeanOperator", "ArrayMedianOperator", "ArrayStandardDeviationOperator", "ArrayRankOperator",
                 "ArraySizeOperator"}
ELEMENT_METHODS = {"arr_sum": "ArraySumOperator", "arr_prod": "ArrayProductOperator", "arr_rank": "ArrayRankOperator",
                   "arr_mean": "ArrayMeanOperator", "arr_median": "ArrayMedianOperator",
                   "arr_stddev": "ArrayStandardDeviationOperator", "arr_size": "ArraySizeOperator", "dot": "DotOperator"}

VEC = "len(dimX) == 1 or dimX[1] == 0"


def _is_vec_test(t: ast.AST) -> Optional[str]:
    s = " ".join(src(t).split())
    for d in ("dim1", "dim2"):
        if s == VEC.replace("dimX", d):
            return d
    return None


def _ancestors(root: ast.AST, target: ast.AST) -> List[Tuple[ast.If, bool]]:
    """(If, in_body?) chain from *root* down to *target*."""
    out: List[Tuple[ast.If, bool]] = []

    def rec(n: ast.AST, chain) -> bool:
        if n is target:
            out.extend(chain)
            return True
        if isinstance(n, ast.If):
            for b in n.body:
                if rec(b, chain + [(n, True)]):
                    return True
            for b in n.orelse:
                if rec(b, chain + [(n, False)]):
                    return True
            return False
        for c in ast.iter_child_nodes(n):
            if isinstance(c, (ast.FunctionDef, ast.Lambda)) and c is not root:
                continue
            if rec(c, chain):
                return True
        return False
    rec(root, [])
    return out


def _idx_shape(e: ast.AST, k: str) -> Tuple[str, List[str]]:
    """Shape of an index list literal relative to the summation variable k: 'k', 'kX', 'Xk'."""
    if not isinstance(e, ast.List):
        return "?", []
    shape = ""
    others = []
    for x in e.elts:
        if isinstance(x, ast.Name) and x.id == k:
            shape += "k"
        else:
            shape += "X"
            others.append(src(x))
    return shape, others


def _is_product_piece(t: str) -> bool:
    """'({}) * ({})' (positional or numbered placeholders): the text of one product of the sum"""
    import re as _re
    try:
        return nf(_re.sub(r"\{\d*\}", "q", t)) == nf("q*q") and len(_re.findall(r"\{\d*\}", t)) == 2
    except SyntaxError:
        return False


class _Undecided(Exception):
    pass


def _count_under(fn: ast.AST, upto: ast.AST, expr: ast.AST, columns_positive: bool):
    """Value of *expr* at statement *upto* of *fn* in terms of the two components R, C of matrix_size(), under the assumption
    C >= 1 (a matrix) or C == 0 (a plain vector).  A partial evaluation over the sign of C: assignments are substituted, tests
    on C are decided by the assumption, `max(C, 1)`, `C or 1`, `C if C > 0 else 1` fold.  None when the code leaves the fragment."""
    R, C = ast.Name("__R", ast.Load()), (ast.Name("__C", ast.Load()) if columns_positive else ast.Constant(0))
    env: Dict[str, object] = {}

    def is_ms(e):
        while isinstance(e, ast.Call) and call_name(e) in ("list", "tuple") and len(e.args) == 1:
            e = e.args[0]
        return isinstance(e, ast.Call) and call_name(e) == "matrix_size"

    def const(e):
        return e.value if isinstance(e, ast.Constant) and isinstance(e.value, (int, bool)) else None

    def is_c(e):
        return isinstance(e, ast.Name) and e.id == "__C"

    def truth(e):
        """True / False / None (unknown)"""
        if const(e) is not None:
            return bool(const(e))
        if is_c(e):
            return True
        if isinstance(e, ast.UnaryOp) and isinstance(e.op, ast.Not):
            t = truth(e.operand)
            return None if t is None else not t
        if isinstance(e, ast.Compare) and len(e.ops) == 1:
            l, r, op = e.left, e.comparators[0], e.ops[0]
            if const(l) is not None and const(r) is not None:
                a, b = const(l), const(r)
                return {ast.Lt: a < b, ast.LtE: a <= b, ast.Gt: a > b, ast.GtE: a >= b, ast.Eq: a == b, ast.NotEq: a != b}.get(type(op))
            flip = {ast.Lt: ast.Gt, ast.LtE: ast.GtE, ast.Gt: ast.Lt, ast.GtE: ast.LtE, ast.Eq: ast.Eq, ast.NotEq: ast.NotEq}
            if is_c(r) and const(l) is not None and type(op) in flip:
                l, r, op = r, l, flip[type(op)]()
            if is_c(l) and const(r) is not None:             # C >= 1
                k = const(r)
                if isinstance(op, ast.Lt):
                    return False if k <= 1 else None
                if isinstance(op, ast.LtE):
                    return False if k <= 0 else None
                if isinstance(op, ast.Gt):
                    return True if k <= 0 else None
                if isinstance(op, ast.GtE):
                    return True if k <= 1 else None
                if isinstance(op, ast.Eq):
                    return False if k <= 0 else None
                if isinstance(op, ast.NotEq):
                    return True if k <= 0 else None
        if isinstance(e, ast.BoolOp):
            ts = [truth(v) for v in e.values]
            if isinstance(e.op, ast.And):
                return False if any(t is False for t in ts) else (True if all(t is True for t in ts) else None)
            return True if any(t is True for t in ts) else (False if all(t is False for t in ts) else None)
        return None

    def ev(e):
        if isinstance(e, ast.Name):
            v = env.get(e.id, e)
            if isinstance(v, list):
                raise _Undecided()
            return v
        if isinstance(e, ast.Subscript) and isinstance(e.value, ast.Name) and isinstance(env.get(e.value.id), list) and const(e.slice) in (0, 1):
            return env[e.value.id][const(e.slice)]
        if isinstance(e, ast.Subscript) and is_ms(e.value) and const(e.slice) in (0, 1):
            return [R, C][const(e.slice)]
        if isinstance(e, ast.IfExp):
            t = truth(ev(e.test))
            if t is None:
                raise _Undecided()
            return ev(e.body if t else e.orelse)
        if isinstance(e, ast.BoolOp) and isinstance(e.op, ast.Or) and len(e.values) == 2:
            l = ev(e.values[0])
            t = truth(l)
            if t is None:
                raise _Undecided()
            return l if t else ev(e.values[1])
        if isinstance(e, ast.Call) and call_name(e) == "max" and len(e.args) == 2 and not e.keywords:
            a, b = ev(e.args[0]), ev(e.args[1])
            if const(a) is not None and const(b) is not None:
                return ast.Constant(max(const(a), const(b)))
            for x, y in ((a, b), (b, a)):
                if is_c(x) and const(y) is not None and const(y) <= 1:
                    return x
            raise _Undecided()
        if isinstance(e, ast.Call) and call_name(e) == "int" and len(e.args) == 1:
            return ev(e.args[0])
        if isinstance(e, ast.BinOp) and isinstance(e.op, ast.Mult):
            a, b = ev(e.left), ev(e.right)
            for x, y in ((a, b), (b, a)):
                if const(x) == 1:
                    return y
                if const(x) == 0:
                    return ast.Constant(0)
            return ast.BinOp(a, ast.Mult(), b)
        if isinstance(e, ast.Compare) and len(e.ops) == 1:
            return ast.Compare(ev(e.left), e.ops, [ev(e.comparators[0])])
        if isinstance(e, ast.UnaryOp):
            return ast.UnaryOp(e.op, ev(e.operand))
        if isinstance(e, ast.Constant):
            return e
        raise _Undecided()

    tracked = lambda: set(env)

    def assigns_tracked(stmts):
        for s_ in stmts:
            for n in ast.walk(s_):
                if isinstance(n, (ast.Assign, ast.AugAssign, ast.AnnAssign)):
                    for t in (n.targets if isinstance(n, ast.Assign) else [n.target]):
                        for x in ast.walk(t):
                            if isinstance(x, ast.Name) and x.id in tracked():
                                return True
        return False

    class _Stop(Exception):
        pass

    def run(stmts):
        for s_ in stmts:
            if s_ is upto or any(x is upto for x in ast.walk(s_)) and not isinstance(s_, (ast.If, ast.For, ast.While, ast.With, ast.Try)):
                raise _Stop()
            if isinstance(s_, ast.Assign) and len(s_.targets) == 1:
                t, v = s_.targets[0], s_.value
                if isinstance(t, ast.Name):
                    if is_ms(v):
                        env[t.id] = [R, C]
                    else:
                        try:
                            env[t.id] = ev(v)
                        except _Undecided:
                            mentions = any(isinstance(x, ast.Name) and x.id in tracked() for x in ast.walk(v)) or any(is_ms(x) for x in ast.walk(v))
                            if mentions or t.id in env:
                                env[t.id] = ast.Name("__unknown_%s" % t.id, ast.Load())
                    continue
                if isinstance(t, (ast.Tuple, ast.List)) and len(t.elts) == 2 and all(isinstance(x, ast.Name) for x in t.elts):
                    if is_ms(v):
                        env[t.elts[0].id], env[t.elts[1].id] = R, C
                        continue
                    if isinstance(v, ast.Name) and isinstance(env.get(v.id), list):
                        env[t.elts[0].id], env[t.elts[1].id] = env[v.id]
                        continue
                if isinstance(t, ast.Subscript) and isinstance(t.value, ast.Name) and isinstance(env.get(t.value.id), list) and const(t.slice) in (0, 1):
                    lst = list(env[t.value.id])
                    lst[const(t.slice)] = ev(v)
                    env[t.value.id] = lst
                    continue
                if assigns_tracked([s_]):
                    raise _Undecided()
                continue
            if isinstance(s_, ast.If):
                try:
                    t = truth(ev(s_.test))
                except _Undecided:
                    t = None
                if t is None:
                    if assigns_tracked(s_.body + s_.orelse):
                        raise _Undecided()
                    if any(x is upto for b_ in s_.body + s_.orelse for x in ast.walk(b_)):
                        run(s_.body if any(x is upto for b_ in s_.body for x in ast.walk(b_)) else s_.orelse)
                    continue
                run(s_.body if t else s_.orelse)
                continue
            if isinstance(s_, (ast.For, ast.While, ast.With, ast.Try)):
                if assigns_tracked([s_]):
                    raise _Undecided()
                if any(x is upto for x in ast.walk(s_)):
                    raise _Undecided()
                continue
            if assigns_tracked([s_]):
                raise _Undecided()

    try:
        try:
            run(fn.body)
        except _Stop:
            pass
        return ev(expr)
    except _Undecided:
        return None


def _rank_rule(idx: Index, res: Result) -> None:
    """ArrayRankOperator.term: the rendered text is sorted(<flat list of all members>, reverse=True)[(N-1 if (r < 0 or r > N) else r-1)]
    with r the operator's rank and N the number of *all* members: rows x columns for a matrix, rows for a plain vector (whose column
    count is 0).  Which placeholder plays which part is found by matching the template; N is decided by partial evaluation over the
    sign of the column count."""
    import itertools
    import string as _string
    from ..util import deref
    rkf = idx.func(OPS, "ArrayRankOperator.term")
    fmts = [c for c in iter_calls(rkf.node) if call_name(c) == "format" and isinstance(c.func.value, ast.Constant) and "sorted(" in str(c.func.value.value)]
    if len(fmts) != 1:
        raise AnalysisError("ArrayRankOperator.term: rank template not found")
    call = fmts[0]
    tmpl = call.func.value.value
    kw = {k.arg: k.value for k in call.keywords}
    fields: List[Optional[ast.AST]] = []
    pieces: List[str] = []
    auto = 0
    try:
        for lit, fld, spec, conv in _string.Formatter().parse(tmpl):
            pieces.append(lit or "")
            if fld is None:
                continue
            if fld == "":
                fields.append(call.args[auto] if auto < len(call.args) else None)
                auto += 1
            elif fld.isdigit():
                fields.append(call.args[int(fld)] if int(fld) < len(call.args) else None)
            else:
                fields.append(kw.get(fld))
            pieces.append(None)
    except ValueError:
        fields = []
    groups: List[str] = []
    for f_ in fields:
        t_ = src(f_) if f_ is not None else "?"
        if t_ not in groups:
            groups.append(t_)
    want = nf("sorted(ARR, reverse=True)[(COUNT - 1 if (RANK < 0 or RANK > COUNT) else RANK - 1)]")
    roles: Dict[str, ast.AST] = {}
    if 3 <= len(groups) <= 4:
        for assign in itertools.product(("ARR", "RANK", "COUNT"), repeat=len(groups)):
            if set(assign) != {"ARR", "RANK", "COUNT"}:
                continue
            it = iter(fields)
            text = ""
            for pc in pieces:
                if pc is None:
                    f_ = next(it)
                    text += assign[groups.index(src(f_) if f_ is not None else "?")]
                else:
                    text += pc
            try:
                if nf(text) == want:
                    for g_, r_ in zip(groups, assign):
                        roles.setdefault(r_, next(f_ for f_ in fields if f_ is not None and src(f_) == g_))
                    break
            except SyntaxError:
                continue
    res.check("AGG", "rank template = descending sort, rank-th entry, clamped to the smallest", bool(roles), rkf.loc(call), rkf.qual, tmpl[:110],
              "the rank template is '%s' filled from %s" % (tmpl[:100], groups), key="AGG/ArrayRankOperator/template")
    if not roles:
        return
    cnt = roles["COUNT"]
    pos = _count_under(rkf.node, call, cnt, True)
    zero = _count_under(rkf.node, call, cnt, False)
    okp = pos is not None and nf(src(pos)) == nf("__R * __C")
    res.check("AGG", "rank clamps against rows x columns", okp, rkf.loc(call), rkf.qual, "count=%s" % src(cnt),
              "the rank is clamped against %s (for a matrix: %s), not against the number of all elements (rows x columns): on a matrix every rank "
              "larger than that silently returns a different entry" % (src(cnt), src(pos).replace("__", "") if pos is not None else "undecided"),
              key="AGG/ArrayRankOperator/count")
    okz = zero is not None and src(zero) == "__R"
    res.check("AGG", "a vector counts as one column", okz, rkf.loc(), rkf.qual, "count=%s" % src(cnt),
              "the column count of a plain vector (0) is not replaced by 1: the element count of a vector would be %s"
              % (src(zero).replace("__", "") if zero is not None else "undecided"), key="AGG/ArrayRankOperator/vector-columns")
    arr = deref(rkf.node, roles["ARR"])
    ok = isinstance(arr, ast.Call) and call_name(arr) == "_matrix_element_to_string" and len(arr.args) == 3 and src(arr.args[0]) == "self.element" \
        and isinstance(arr.args[2], ast.Constant) and arr.args[2].value is True
    res.check("AGG", "rank sorts the flat list of all elements", ok, rkf.loc(), rkf.qual, src(arr)[:80] if arr is not None else "",
              "the rank does not sort the flattened element list", key="AGG/ArrayRankOperator/flat-list")
    rk_ = deref(rkf.node, roles["RANK"])
    okr = isinstance(rk_, ast.Attribute) and src(rk_) == "self.rank"
    res.check("AGG", "rank argument is the operator's rank", okr, rkf.loc(), rkf.qual, src(roles["RANK"]),
              "the rank placeholder is filled from %s" % src(rk_), key="AGG/ArrayRankOperator/rank-arg")


def _reindex_rule(idx: Index, res: Result) -> None:
    """REINDEX: Operator.arrayed_term(index, time) renders the operand at *index* - the summation index of the enclosing dot product -
    whatever index the operand carried before (a clone made by clone_with_index carries the result index), and puts the previous
    index back afterwards.  Decided on the flow graph: the last store to self.index before self.term(...) is the parameter itself."""
    from ..cfg import Flow, build_cfg
    fi = idx.func(OPS, "Operator.arrayed_term")
    ps = params(fi.node)
    if len(ps) < 2:
        raise AnalysisError("Operator.arrayed_term has no index parameter")
    ip = ps[1]
    cfg = build_cfg(fi.node, fi.qual)

    def transfer(node, fact, label):
        if node.kind == "stmt" and label != "exc" and isinstance(node.ast, ast.Assign):
            for t in node.ast.targets:
                if dotted(t) == "self.index":
                    return [src(node.ast.value)]
        return [fact]
    flow = Flow(cfg, ["<entry>"], transfer)
    calls = [n for n in cfg.stmt_nodes() if n.ast is not None and any(isinstance(c, ast.Call) and call_name(c) == "term" and dotted(c.func.value) == "self"
                                                                       for c in ast.walk(n.ast))]
    if not calls:
        raise AnalysisError("Operator.arrayed_term does not call self.term()")
    for n in calls:
        facts = flow.at[n.id]
        ok = bool(facts) and all(f == ip for f in facts)
        res.check("REINDEX", "arrayed_term renders the operand at the index it is given", ok, fi.loc(n.ast), fi.qual, norm_stmt(n.ast)[:80],
                  "while the term is built self.index is %s, not the parameter %s: an operand that already carries an index (a clone made for the "
                  "result index) keeps it, so a dot product over an arrayed expression sums the wrong members" % (sorted(facts), ip),
                  key="REINDEX/Operator.arrayed_term/index-in-force")
    saved = [n.targets[0].id for n in walk_no_nested(fi.node) if isinstance(n, ast.Assign) and isinstance(n.targets[0], ast.Name) and dotted(n.value) == "self.index"]
    out = flow.at[cfg.exit]
    ok = bool(saved) and bool(out) and all(f in saved for f in out)
    res.check("REINDEX", "arrayed_term puts the previous index back", ok, fi.loc(), fi.qual, "self.index = <saved>",
              "on leaving arrayed_term self.index is %s, not the saved previous index" % sorted(out), key="REINDEX/Operator.arrayed_term/restore")


def index_owner_rule(idx: Index, res: Result, rule: str) -> int:
    """OWNER: the index of an operator object is written by the operator classes themselves only - its constructor, clone_with_index
    (which hands the index on to the operands it clones) and arrayed_term (which puts the previous index back).  Re-pointing `.index` of
    an existing clone from outside leaves every *nested* operator at the index it was cloned for: (A + B) * C evaluated for row 2 reads
    A and B at row 0.  Returns the number of stores seen."""
    n = 0
    ALLOWED = {"__init__", "clone_with_index", "arrayed_term"}
    for rel in sorted(idx.modules):
        if not rel.startswith("BPTK_Py/sddsl/"):
            continue
        for fi in idx.modules[rel].functions.values():
            for a in walk_no_nested(fi.node):
                tgts = a.targets if isinstance(a, ast.Assign) else ([a.target] if isinstance(a, (ast.AugAssign, ast.AnnAssign)) else [])
                for t in tgts:
                    if isinstance(t, ast.Attribute) and t.attr == "index":
                        n += 1
                        inside = rel == OPS and fi.node.name in ALLOWED
                        res.check(rule, "%s: %s written by the operator classes only" % (fi.qual, src(t)), inside, fi.loc(a), fi.qual, norm_stmt(a)[:80],
                                  "%s re-points %s of an operator that exists already: clone_with_index also clones the operands for the index, a "
                                  "bare store leaves every nested operator at the index it was cloned for, so all but the first member of a row are "
                                  "computed from the first member's operands" % (fi.qual, src(t)), key="%s/%s/%s-store" % (rule, fi.qual, src(t)))
    return n


def check_c10(idx: Index, tier: str, res: Result) -> None:
    res.explanation = ("Static decision of the arrayed-equation generator: (a) hole-safety, time pass-through and operator identity "
                       "of every arrayed return path of + - * /, scalar multiply, dot and the aggregates; both operands of an "
                       "element-wise operator walk the same index; (b) DotOperator.resolve_dimensions (the acceptance gate) has the "
                       "four shape guards, each ending in a raise, and the right result dimensions, and DotOperator.term's guards "
                       "agree with it (sibling check); (c) the summation loops have the index patterns A[i][k]*B[k], A[k]*B[k][j], "
                       "A[i][k]*B[k][j], A[k]*B[k] with the shared dimension as bound, each under its own case; (d) aggregate class "
                       "<-> numpy function / join operator table and Element.arr_* -> class table.")
    res.rules = ["R1/R2/OPID on arrayed templates", "INDEXWALK: for i in self.index", "GUARDS: shape guards and result dimensions",
                 "SUMIDX: index pattern and bound of each product loop", "AGG: aggregate table"]
    res.not_decided = ["element values against numpy for all shapes (numeric)", "np.mean/np.median/np.std themselves"]
    renderers, stats = dsl_renderers(idx, res)
    vocab = set(C02_VOCAB)
    inners = inner_texts(renderers, vocab)
    guards = ctor_guards(idx)
    arr_renderers = [r for r in renderers if r.cls in ARRAY_CLASSES]
    res.floor("arrayed return paths", len(arr_renderers), 50)
    _reindex_rule(idx, res)
    res.floor("stores to an operator's index", index_owner_rule(idx, res, "OWNER"), 8)
    _rank_rule(idx, res)
    _r1_table(res, arr_renderers, ARRAY_CLASSES, inners, tier, "R1", "C10", guards)
    _r2(idx, res, arr_renderers, floor=60)
    operator_identity(res, arr_renderers, ARRAY_CLASSES)

    # ---- both operands walk the same index ------------------------------------------------------
    nwalk = 0
    walked = set()
    for cname in ("AdditionOperator", "SubtractionOperator", "MultiplicationOperator", "DivisionOperator",
                  "NumericalMultiplicationOperator"):
        fi = idx.func(OPS, "%s.term" % cname)
        for lp in [n for n in walk_no_nested(fi.node) if isinstance(n, ast.For)]:
            body = lp.body
            if len(body) == 1 and isinstance(body[0], ast.Assign) and isinstance(body[0].value, ast.Subscript):
                nwalk += 1
                walked.add(cname)
                ok = src(lp.iter) == "self.index" and isinstance(lp.target, ast.Name) and src(body[0].value.slice) == lp.target.id \
                    and src(body[0].targets[0]) == src(body[0].value.value)
                res.check("INDEXWALK", "%s: %s" % (cname, norm_stmt(lp)[:60]), ok, fi.loc(lp), fi.qual, norm_stmt(lp)[:100],
                          "an operand of the element-wise %s is not resolved with the operator's own index" % cname,
                          key="INDEXWALK/%s/%s" % (cname, norm_stmt(lp)[:60]))
    res.floor("element-wise operators whose term() walks the index", len(walked), 5)

    # ---- (b) guards of resolve_dimensions ------------------------------------------------------------
    import dataclasses
    from ..util import expand_aliases
    rd = idx.func(OPS, "DotOperator.resolve_dimensions")
    term = idx.func(OPS, "DotOperator.term")
    # locals that merely name a path (row = self.index[0]) are written out: the rules below are phrased over dim1/dim2/self.index
    rd = dataclasses.replace(rd, node=expand_aliases(rd.node))
    term = dataclasses.replace(term, node=expand_aliases(term.node))

    CASES = {"scalar": dict(S1=True, S2=True, V1=False, V2=False), "s1": dict(S1=True, S2=False, V1=False, V2=False),
             "s2": dict(S1=False, S2=True, V1=False, V2=False), "vv": dict(S1=False, S2=False, V1=True, V2=True),
             "vm": dict(S1=False, S2=False, V1=True, V2=False), "mv": dict(S1=False, S2=False, V1=False, V2=True),
             "mm": dict(S1=False, S2=False, V1=False, V2=False)}

    def case_paths(fi: FuncInfo, val: Dict[str, bool], on_loop=None):
        """Paths of *fi* consistent with one shape case.  Case tests (dimX == -1, `len(dimX) == 1 or dimX[1] == 0`, boolean locals
        and and/or/not of these) are decided by the valuation; a test whose body raises is a *guard* (recorded, then assumed to
        pass); any other test forks.  Yields (guards, ('return', text) | ('raise',) | ('end',))."""
        def evalb(e, env):
            if isinstance(e, ast.Name):
                return env.get(e.id)
            v = _is_vec_test(e)
            if v:
                return val["V1" if v == "dim1" else "V2"]
            t = " ".join(src(e).split())
            for d, k in (("dim1", "S1"), ("dim2", "S2")):
                if t in ("%s == -1" % d, "%s is -1" % d, "-1 == %s" % d):
                    return val[k]
                if t in ("%s != -1" % d, "%s is not -1" % d):
                    return not val[k]
            if isinstance(e, ast.BoolOp):
                vs = [evalb(x, env) for x in e.values]
                if isinstance(e.op, ast.And):
                    if any(x is False for x in vs):
                        return False
                    return True if all(x is True for x in vs) else None
                if any(x is True for x in vs):
                    return True
                return False if all(x is False for x in vs) else None
            if isinstance(e, ast.UnaryOp) and isinstance(e.op, ast.Not):
                x = evalb(e.operand, env)
                return None if x is None else (not x)
            return None

        def run(stmts, env, guards, depth=0):
            """returns list of (guards, outcome) for the paths through stmts; outcome None = falls through"""
            if not stmts:
                return [(guards, None, env)]
            s0, rest = stmts[0], stmts[1:]
            if on_loop is not None and isinstance(s0, (ast.Return, ast.Assign, ast.AugAssign, ast.Expr)):
                for c_ in ast.walk(s0):                  # sep.join(piece for k in range(n)): the comprehension form of a loop
                    if isinstance(c_, (ast.GeneratorExp, ast.ListComp)):
                        on_loop(c_)
            if isinstance(s0, ast.Return):
                return [(guards, ("return", " ".join(src(s0.value).split()), s0), env)]
            if isinstance(s0, ast.Raise):
                return [(guards, ("raise",), env)]
            if isinstance(s0, ast.Assign) and len(s0.targets) == 1 and isinstance(s0.targets[0], ast.Name):
                v = evalb(s0.value, env)
                env = dict(env)
                if v is not None:
                    env[s0.targets[0].id] = v
                else:
                    env.pop(s0.targets[0].id, None)
                return run(rest, env, guards, depth)
            if isinstance(s0, ast.If):
                v = evalb(s0.test, env)
                branches = []
                if v is None and any(isinstance(x, ast.Raise) for x in s0.body):
                    # a guard: record it; the accepted run continues on the other side
                    # conjuncts the shape case already decides (dim1 != -1 and ...) are not part of what the guard tests
                    test_ = s0.test
                    if isinstance(test_, ast.BoolOp) and isinstance(test_.op, ast.And):
                        rest_ = [x for x in test_.values if evalb(x, env) is None]
                        if len(rest_) == 1:
                            test_ = rest_[0]
                        elif rest_ and len(rest_) < len(test_.values):
                            test_ = ast.BoolOp(ast.And(), rest_)
                    g2 = guards + [(" ".join(src(test_).split()), s0)]
                    branches = [(s0.orelse, g2)]
                elif v is None:
                    branches = [(s0.body, guards), (s0.orelse, guards)]
                else:
                    branches = [(s0.body if v else s0.orelse, guards)]
                out = []
                for blk, g in branches:
                    for gg, oc, e2 in run(list(blk), env, g, depth + 1):
                        if oc is None:
                            out += run(rest, e2, gg, depth)
                        else:
                            out.append((gg, oc, e2))
                return out[:64]
            if isinstance(s0, (ast.For, ast.While, ast.With, ast.Try)):
                # bodies are walked for guards/returns; a loop may also run zero times
                if on_loop is not None and isinstance(s0, (ast.For, ast.While)):
                    on_loop(s0)
                inner = run(list(s0.body), env, guards, depth + 1)
                out = []
                for gg, oc, e2 in inner:
                    if oc is None or isinstance(s0, (ast.For, ast.While)):
                        out += run(rest, env, gg, depth)
                    if oc is not None:
                        out.append((gg, oc, e2))
                return out[:64]
            return run(rest, env, guards, depth)
        return [(g, oc) for g, oc, _ in run(list(fi.node.body), {}, [])]

    def guard_table(fi: FuncInfo) -> Dict[str, List[str]]:
        out: Dict[str, List[str]] = {}
        for case, val in CASES.items():
            seen_g = []
            for guards, oc in case_paths(fi, val):
                for g, _node in guards:
                    if g not in seen_g:
                        seen_g.append(g)
            out[case if case not in ("s1", "s2") else "scalar-mixed"] = out.get(case if case not in ("s1", "s2") else "scalar-mixed", []) + seen_g
        return out
    g_rd = guard_table(rd)
    g_term = guard_table(term)
    REQ = {"vv": {"dim1[0] != dim2[0]", "dim2[0] != dim1[0]"},
           "vm": {"dim1[0] != dim2[0]", "dim2[0] != dim1[0]"},
           "mv": {"dim1[1] != dim2[0]", "dim2[0] != dim1[1]"},
           "mm": {"dim1[1] != dim2[0]", "dim2[0] != dim1[1]"}}
    for case, accepted in REQ.items():
        have = [g for g in g_rd.get(case, []) if g in accepted]
        res.check("GUARDS", "resolve_dimensions rejects mismatched %s shapes" % case, bool(have), rd.loc(), rd.qual,
                  "; ".join(g_rd.get(case, [])) or "no guard",
                  "DotOperator.resolve_dimensions (which decides whether an arrayed dot equation is accepted) has no raise for "
                  "mismatched %s shapes (guards found: %s): mismatched operands would yield values" % (case, g_rd.get(case, [])),
                  key="GUARDS/resolve_dimensions/%s" % case)
        # sibling agreement: a shape guard in term() for the same case must be one of the accepted forms
        shape_guards = [g for g in g_term.get(case, []) if "dim1" in g and "dim2" in g and "index" not in g]
        for g in shape_guards:
            res.check("GUARDS", "term() guard for %s agrees with resolve_dimensions" % case, g in accepted, term.loc(), term.qual, g,
                      "DotOperator.term guards the %s case with '%s' while resolve_dimensions requires %s" % (case, g, sorted(accepted)),
                      key="GUARDS/term/%s/%s" % (case, g))
    sc_paths = case_paths(rd, CASES["scalar"])
    res.check("GUARDS", "value . value is rejected", bool(sc_paths) and all(oc == ("raise",) for _, oc in sc_paths), rd.loc(), rd.qual,
              "; ".join(str(oc[:2]) for _, oc in sc_paths)[:120], "a dot product of two plain values is not rejected", key="GUARDS/resolve_dimensions/scalar")
    # result dimensions
    rets = []
    for case, val in CASES.items():
        if case == "scalar":
            continue
        for guards, oc in case_paths(rd, val):
            if oc and oc[0] == "return":
                rets.append((case, oc[1], oc[2]))
    WANT = {"s1": "dim2", "s2": "dim1", "vv": "-1", "vm": "[dim2[1]]", "mv": "[dim1[0]]", "mm": "[dim1[0], dim2[1]]"}
    got: Dict[str, str] = {}
    for c, v, _ in rets:
        got[c] = v if got.get(c, v) == v else "%s | %s" % (got[c], v)
    for case, want in WANT.items():
        res.check("GUARDS", "result dimensions of case %s = %s" % (case, want), got.get(case) == want, rd.loc(), rd.qual,
                  "return %s" % got.get(case), "resolve_dimensions answers %s for the %s case, numpy's result shape is %s"
                  % (got.get(case), case, want), key="GUARDS/resolve_dimensions/result-%s" % case)
    # the If bodies of the case tests end in return/raise (no fall-through into the next case)
    for fi in (rd, term):
        for n in fi.node.body:
            if isinstance(n, ast.If) and (_is_vec_test(n.test) or " ".join(src(n.test).split()) in ("dim1 == -1", "dim2 == -1")):
                last = n.body[-1]
                ok = isinstance(last, (ast.Return, ast.Raise))
                res.check("GUARDS", "%s: case '%s' does not fall through" % (fi.name, src(n.test)[:30]), ok, fi.loc(n), fi.qual,
                          norm_stmt(last)[:80], "the case '%s' of %s falls through into the next case" % (src(n.test), fi.qual),
                          key="GUARDS/%s/fallthrough/%s" % (fi.name, " ".join(src(n.test).split())))

    # ---- (c) summation loops ---------------------------------------------------------------------------
    LEGAL = {("k", "k"): ("vv", {"dim1[0]", "dim2[0]"}), ("k", "kX"): ("vm", {"dim2[0]", "dim1[0]"}),
             ("Xk", "k"): ("mv", {"dim1[1]", "dim2[0]"}), ("Xk", "kX"): ("mm", {"dim1[1]", "dim2[0]"})}
    seen_cases: Set[str] = set()
    nloops = 0
    loop_cases: Dict[str, Set[int]] = {}
    for c_ in ("vv", "vm", "mv", "mm"):
        hit: Set[int] = set()
        case_paths(term, CASES[c_], on_loop=lambda l_, hit=hit: hit.add(id(l_)))
        loop_cases[c_] = hit
    from ..util import deref as _deref0
    joins = {}
    for c_ in iter_calls(term.node):
        if call_name(c_) == "join" and isinstance(c_.func, ast.Attribute) and isinstance(c_.func.value, ast.Constant) and len(c_.args) == 1:
            a_ = c_.args[0] if isinstance(c_.args[0], (ast.GeneratorExp, ast.ListComp)) else _deref0(term.node, c_.args[0])
            if isinstance(a_, (ast.GeneratorExp, ast.ListComp)):
                joins[id(a_)] = c_.func.value.value
    loops = [n for n in walk_no_nested(term.node) if isinstance(n, ast.For)]
    loops += [n for n in walk_no_nested(term.node) if isinstance(n, (ast.GeneratorExp, ast.ListComp)) and len(n.generators) == 1 and not n.generators[0].ifs]
    for lp0 in loops:
        is_comp = not isinstance(lp0, ast.For)
        lp = lp0.generators[0] if is_comp else lp0
        if not (isinstance(lp.iter, ast.Call) and call_name(lp.iter) == "range" and isinstance(lp.target, ast.Name)):
            continue
        k = lp.target.id
        bound = " ".join(src(lp.iter.args[-1]).split())
        calls = [c for c in iter_calls(lp0.elt if is_comp else lp0) if call_name(c) in ("_get_sub_element_term", "term")]
        subs = [c for c in calls if call_name(c) == "_get_sub_element_term"]
        if subs:
            if len(subs) != 2:
                raise AnalysisError("product loop with %d sub-element terms" % len(subs))
            a1 = [c for c in subs if src(c.args[0]) == "self.element_1"]
            a2 = [c for c in subs if src(c.args[0]) == "self.element_2"]
            if len(a1) != 1 or len(a2) != 1:
                raise AnalysisError("product loop does not multiply element_1 by element_2")
            s1, o1 = _idx_shape(a1[0].args[1], k)
            s2, o2 = _idx_shape(a2[0].args[1], k)
        else:
            # vector . vector: self.element_1[i].term(time) * self.element_2[i].term(time)
            t1 = [c for c in calls if src(c.func.value) == "self.element_1[%s]" % k]
            t2 = [c for c in calls if src(c.func.value) == "self.element_2[%s]" % k]
            if len(t1) != 1 or len(t2) != 1:
                continue
            s1, o1, s2, o2 = "k", [], "k", []
        nloops += 1
        legal = LEGAL.get((s1, s2))
        reach = sorted(c_ for c_ in ("vv", "vm", "mv", "mm") if id(lp0) in loop_cases.get(c_, set()))
        if len(reach) != 1:
            raise AnalysisError("product loop at %s is reachable under the shape cases %s" % (term.loc(lp0), reach))
        where_case = reach[0]
        ok = legal is not None and legal[0] == where_case and bound in legal[1]
        res.check("SUMIDX", "%s loop: A%s * B%s over range(%s)" % (where_case, s1, s2, bound), ok, term.loc(lp0), term.qual,
                  (src(lp0) if is_comp else norm_stmt(lp0))[:160],
                  "the %s product loop multiplies A[%s] by B[%s] over range(%s): numpy's %s product sums A[..k] * B[k..] over "
                  "the shared dimension %s" % (where_case, s1, s2, bound, where_case, sorted(LEGAL[{"vv": ("k", "k"), "vm": ("k", "kX"),
                                                                                              "mv": ("Xk", "k"), "mm": ("Xk", "kX")}[where_case]][1])),
                  key="SUMIDX/%s/A%s-B%s-%s" % (where_case, s1, s2, bound))
        if where_case == "mm" and ok:
            ok2 = o1 == ["self.index[0]"] and o2 == ["self.index[1]"]
            res.check("SUMIDX", "mm loop: row from index[0], column from index[1]", ok2, term.loc(lp0), term.qual, "%s / %s" % (o1, o2),
                      "matrix-matrix element (i,j) is computed from row %s and column %s" % (o1, o2), key="SUMIDX/mm/row-col")
        if where_case in ("vm", "mv") and ok:
            other = (o2 if where_case == "vm" else o1)
            ok2 = other == ["index"]
            res.check("SUMIDX", "%s loop: free index is the operator's index" % where_case, ok2, term.loc(lp0), term.qual, str(other),
                      "the free index of the %s product is %s" % (where_case, other), key="SUMIDX/%s/free-index" % where_case)
        seen_cases.add(where_case)
        # products are summed: the accumulated piece is "(a) * (b) + "
        if is_comp:
            # ' + '.join('({}) * ({})'.format(a, b) for k in range(n))
            piece = lp0.elt
            okf = isinstance(piece, ast.Call) and call_name(piece) == "format" and isinstance(piece.func.value, ast.Constant) \
                and isinstance(piece.func.value.value, str) and _is_product_piece(piece.func.value.value) \
                and str(joins.get(id(lp0), "")).strip() == "+"
            accs = []
            shown = "%r.join(%s)" % (joins.get(id(lp0)), src(piece.func.value) if isinstance(piece, ast.Call) and isinstance(piece.func, ast.Attribute) else src(piece)[:40])
        else:
            accs = [n for n in ast.walk(lp0) if isinstance(n, ast.AugAssign) and isinstance(n.value, ast.Call) and call_name(n.value) == "format"]
            okf = len(accs) == 1 and isinstance(accs[0].value.func.value, ast.Constant) and \
                _is_product_piece(str(accs[0].value.func.value.value).rstrip().rstrip("+"))
            shown = src(accs[0].value.func.value) if accs else ""
        res.check("SUMIDX", "%s loop sums products" % where_case, okf, term.loc(lp0), term.qual,
                  shown, "the loop does not accumulate '(a) * (b) + '", key="SUMIDX/%s/accumulate" % where_case)
    res.floor("product loops in DotOperator.term", nloops, 5)
    res.check("SUMIDX", "all four product forms present", seen_cases == {"vv", "vm", "mv", "mm"}, term.loc(), term.qual, str(sorted(seen_cases)),
              "product forms found: %s" % sorted(seen_cases), key="SUMIDX/forms")

    # ---- (d) aggregates -----------------------------------------------------------------------------------
    el = idx.cls(ELEMENT, "Element")
    for meth, cls in ELEMENT_METHODS.items():
        defs = el.methods.get(meth)
        if not defs:
            raise AnalysisError("anchor vanished: Element.%s" % meth)
        rets = [n for n in walk_no_nested(defs[-1].node) if isinstance(n, ast.Return)]
        ok = len(rets) == 1 and isinstance(rets[0].value, ast.Call) and call_name(rets[0].value) == cls and src(rets[0].value.args[0]) == "self"
        res.check("AGG", "Element.%s builds %s(self, ...)" % (meth, cls), ok, defs[-1].loc(), defs[-1].qual,
                  norm_stmt(rets[0]) if rets else "", "Element.%s builds %s" % (meth, src(rets[0].value) if rets else "?"),
                  key="AGG/Element.%s" % meth)
    # rank: sorted descending, rank-th, clamped to the smallest
    rk = [r for r in renderers if r.cls == "ArrayRankOperator" and hole_keys(r.parts)]
    if not rk:
        raise AnalysisError("ArrayRankOperator template not extracted")
    for r in rk:
        t = parts_text(r.parts)
        ok = t.startswith("sorted([") and "reverse=True" in t and "-1" in t
        res.check("AGG", "rank = sorted descending [rank-1]", ok, r.fi.loc(), r.fi.qual, t[:120], "the rank template is %s" % t[:100],
                  key="AGG/ArrayRankOperator/shape")
    sz = idx.func(OPS, "ArraySizeOperator.term")
    ok = any(call_name(c) == "vector_size" for c in iter_calls(sz.node))
    res.check("AGG", "size = number of sub-elements", ok, sz.loc(), sz.qual, "vector_size()", "ArraySizeOperator does not report vector_size()",
              key="AGG/ArraySizeOperator/shape")
    res.extra.update(stats)
    res.floor("index-axis agreement sites (loop variable over dims[k] used at position k)", _axis_agreement(idx, res), 4)

    # ---- element-wise operators: two arrays are accepted only when their shapes are equal (siblings + - * /) ----------------------------
    both = dict(S1=False, S2=False, V1=False, V2=False)
    nel = 0
    for cname in ("AdditionOperator", "SubtractionOperator", "MultiplicationOperator", "DivisionOperator"):
        rdf = idx.try_func(OPS, "%s.resolve_dimensions" % cname)
        if rdf is None:
            raise AnalysisError("anchor vanished: %s.resolve_dimensions" % cname)
        nel += 1
        unguarded = [oc for guards, oc in case_paths(rdf, both) if oc and oc[0] == "return"
                     and not any(g.replace(" ", "") in ("dim1!=dim2", "dim2!=dim1", "(dim1!=dim2)", "notdim1==dim2") for g, _ in guards)]
        res.check("GUARDS", "%s accepts two arrays only when their shapes are equal" % cname, not unguarded, rdf.loc(unguarded[0][2]) if unguarded else rdf.loc(),
                  rdf.qual, "return %s" % unguarded[0][1] if unguarded else "if dim1 != dim2: raise",
                  "%s.resolve_dimensions can answer %s for two arrayed operands without having compared their shapes: an element-wise equation over "
                  "arrays of different shapes is accepted and yields values for the shape of the left operand"
                  % (cname, unguarded[0][1] if unguarded else ""), key="GUARDS/%s.resolve_dimensions/unchecked-shapes" % cname)
    res.floor("element-wise resolve_dimensions siblings", nel, 4)

    # ---- clones keep their class: x.arr_median() inside an arrayed equation is still a median in every per-index clone -----------------
    from ..util import deref as _deref
    ncl = 0
    for cname, ci in idx.module(OPS).classes.items():
        if "clone_with_index" not in ci.methods:
            continue
        cf = ci.methods["clone_with_index"][-1]
        for r_ in [x for x in walk_no_nested(cf.node) if isinstance(x, ast.Return) and x.value is not None]:
            v = _deref(cf.node, r_.value)
            if not isinstance(v, ast.Call):
                continue
            built = call_name(v)
            if built in ("type", "__class__") or isinstance(v.func, ast.Call):
                continue               # type(self)(...) / self.__class__(...)
            if built is None or built not in idx.module(OPS).classes:
                continue
            ncl += 1
            res.check("AGG", "%s.clone_with_index builds a %s" % (cname, cname), built == cname, cf.loc(v), cf.qual, src(v)[:80],
                      "%s.clone_with_index builds a %s: inside an arrayed equation every per-index clone computes %s instead of %s"
                      % (cname, built, built, cname), key="AGG/%s.clone_with_index/class" % cname)
    res.floor("clone_with_index constructions", ncl, 10)

    # ---- shape queries are recomputed: an array grows after it was first used (m[i][n] = v, a new dot operand) ---------------------------
    ae = idx.module(OPS).classes.get("ArrayedEquation")
    if ae is None:
        raise AnalysisError("anchor vanished: ArrayedEquation")
    nq = 0
    for mname in ("matrix_size", "vector_size"):
        if mname not in ae.methods:
            continue
        qf = ae.methods[mname][-1]
        nq += 1
        st = [x for x in ast.walk(qf.node) if isinstance(x, ast.Attribute) and isinstance(x.ctx, ast.Store) and isinstance(x.value, ast.Name) and x.value.id == "self"]
        res.check("GUARDS", "ArrayedEquation.%s computes the shape from the current members" % mname, not st, qf.loc(st[0]) if st else qf.loc(), qf.qual,
                  src(st[0]) if st else "", "ArrayedEquation.%s stores %s: a shape remembered on the object outlives the shape - rows that gain a column "
                  "(or a member assigned later) are not seen by dot products, element-wise operators and rank" % (mname, src(st[0]) if st else ""),
                  key="GUARDS/ArrayedEquation.%s/cached-shape" % mname)
    res.floor("shape queries of ArrayedEquation", nq, 2)


def _axis_agreement(idx: Index, res: Result) -> int:
    """AXIS: in the expansion loops of an arrayed equation a variable that ranges over ``range(D[k])`` addresses axis k: it stands at
    position k of ``X[i][j]`` and of the index list ``[i, j]`` handed to clone_with_index.  A variable over the wrong axis leaves part
    of a non-square result without equation (or addresses entries that do not exist)."""
    n_inst = 0
    for rel in (ELEMENT, OPS):
        for fi in idx.module(rel).functions.values():
            axis: Dict[str, Tuple[str, int, ast.AST]] = {}
            for lp in [n for n in walk_no_nested(fi.node) if isinstance(n, ast.For)]:
                it = lp.iter
                if isinstance(lp.target, ast.Name) and isinstance(it, ast.Call) and call_name(it) == "range" and len(it.args) == 1 \
                        and isinstance(it.args[0], ast.Subscript) and isinstance(it.args[0].slice, ast.Constant) and isinstance(it.args[0].slice.value, int):
                    axis_here = (src(it.args[0].value), it.args[0].slice.value, lp)
                    axis[(lp.target.id, id(lp))] = axis_here
            if not axis:
                continue
            # evaluate each use under the loops enclosing it
            def enclosing(node):
                env = {}
                for (v, _), (d, k, lp) in axis.items():
                    if any(x is node for x in ast.walk(lp)):
                        env[v] = (d, k, lp)
                return env
            for kind, node, elts in _index_uses(fi.node):
                env = enclosing(node)
                vs = [e.id if isinstance(e, ast.Name) else None for e in elts]
                if len(vs) < 2 or not all(v in env for v in vs):
                    continue
                ds = {env[v][0] for v in vs}
                if len(ds) != 1:
                    continue
                n_inst += 1
                got = [env[v][1] for v in vs]
                ok = got == list(range(len(vs)))
                res.check("AXIS", "%s: %s addresses axes %s" % (fi.qual, src(node)[:40], got), ok, fi.loc(node), fi.qual, src(node)[:80],
                          "%s is addressed with variables that range over axes %s of %s (expected %s): the loop over `%s` covers the wrong axis, so for "
                          "a non-square result some entries get no equation and others do not exist"
                          % (src(node)[:50], got, sorted(ds)[0], list(range(len(vs))), norm_stmt(env[vs[got.index(next(g for i, g in enumerate(got) if g != i))]][2])[:40] if not ok else ""),
                          key="AXIS/%s/%s" % (fi.qual, kind))
    return n_inst


def _index_uses(root: ast.AST):
    """('subscript', node, [i, j]) for X[i][j] chains and ('list', node, [i, j]) for index-list literals passed to a call."""
    inner = set()
    for n in ast.walk(root):
        if isinstance(n, ast.Subscript) and isinstance(n.value, ast.Subscript):
            inner.add(id(n.value))
    for n in ast.walk(root):
        if isinstance(n, ast.Subscript) and id(n) not in inner and isinstance(n.value, ast.Subscript):
            chain = []
            e = n
            while isinstance(e, ast.Subscript):
                chain.append(e.slice)
                e = e.value
            yield "subscript:%s" % src(e), n, list(reversed(chain))
        if isinstance(n, ast.Call):
            for a in n.args:
                if isinstance(a, ast.List) and len(a.elts) >= 2 and all(isinstance(x, ast.Name) for x in a.elts):
                    yield "list:%s" % (call_name(n) or ""), a, list(a.elts)
