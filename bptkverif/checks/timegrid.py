"""C05: the simulated time grid is exact.  Kind rule: a *raw* time value (the
result of + or - between a time-kinded and a dt-kinded operand) must pass
through normalize() before it reaches a sink that needs a grid value: the
bound of an exclusive range, a dictionary key, the stored session clock, a
comparison that selects the initial branch."""
from __future__ import annotations

import ast
from typing import Dict, List, Optional, Set, Tuple

from ..core import (AnalysisError, FuncInfo, Index, Result, call_name, call_recv, const_str, dotted, iter_calls,
                    norm_stmt, src, walk_no_nested)
from ..nf import nf
from ..templates import Hole, Lit, Opq, TimeRef, hole_keys, parts_text, render, role_names
from ..util import params, single_assignments

FP = "BPTK_Py/util/floating_point.py"
MODEL = "BPTK_Py/modeling/model.py"
SDSIM = "BPTK_Py/sdsimulation/sd_simulation.py"
RUNNER = "BPTK_Py/scenariorunners/sd_runner.py"
BPTK = "BPTK_Py/bptk.py"
ELEMENT = "BPTK_Py/sddsl/element.py"
CONSULTED = [FP, MODEL, SDSIM, RUNNER, BPTK, ELEMENT, "BPTK_Py/util/lookup_data.py"]

TIME_NAMES = {"i", "t", "step", "until", "start", "starttime", "stoptime", "time", "starttime_", "stoptime_", "arg", "x"}
TIME_ATTRS = {"starttime", "stoptime", "until"}


def _dt_like(e: ast.AST) -> bool:
    if isinstance(e, ast.Name):
        return e.id == "dt"
    if isinstance(e, ast.Attribute):
        return e.attr == "dt"
    return False


_DERIVED_TIME: Set[str] = set()      # locals of the function under analysis that were initialised from a time (point = starttime)


def _time_like(e: ast.AST) -> bool:
    if isinstance(e, ast.Name):
        return e.id in TIME_NAMES or e.id in _DERIVED_TIME
    if isinstance(e, ast.Attribute):
        return e.attr in TIME_ATTRS
    if isinstance(e, ast.Subscript):
        return const_str(e.slice) in ("step", "starttime", "stoptime")
    return False


def _parents(root: ast.AST) -> Dict[int, ast.AST]:
    par: Dict[int, ast.AST] = {}
    for n in ast.walk(root):
        for c in ast.iter_child_nodes(n):
            par[id(c)] = n
    return par


def _classify(node: ast.BinOp, par: Dict[int, ast.AST]) -> Tuple[str, ast.AST]:
    """Where does the raw sum flow?  ('normalized'|'range-bound'|'clock'|'key'|'log'|'compare'|'other', consumer)"""
    cur: ast.AST = node
    while id(cur) in par:
        p = par[id(cur)]
        if isinstance(p, ast.Call):
            n = call_name(p)
            if n == "normalize" and p.args and p.args[0] is cur:
                return "normalized", p
            if n == "timerange":
                pos = [i for i, a in enumerate(p.args) if a is cur]
                if pos and pos[0] == 1:
                    return "range-bound", p
                return "other", p
            if n in ("log", "format", "print", "str"):
                return "log", p
            return "other", p
        if isinstance(p, ast.Subscript) and p.slice is cur:
            return "key", p
        if isinstance(p, ast.Assign) and p.value is cur:
            t = p.targets[0]
            if isinstance(t, ast.Subscript) and const_str(t.slice) == "step":
                return "clock", p
            return "assign", p
        if isinstance(p, ast.Compare):
            return "compare", p
        if isinstance(p, (ast.BinOp, ast.UnaryOp, ast.keyword, ast.Tuple, ast.IfExp)):
            cur = p
            continue
        return "other", p
    return "other", node



def normalize_sites_rule(idx: Index, res: Result, rule: str = "NORM", prefixes=("BPTK_Py/bptk.py", "BPTK_Py/modeling/model.py", "BPTK_Py/util/floating_point.py",
                                                                              "BPTK_Py/sdsimulation/", "BPTK_Py/scenariorunners/", "BPTK_Py/server/")) -> int:
    """Every normalize(x, base, offset, precision) call snaps to the grid offset + k*base with the digits of *both* offset and base:
    precision = max(scale(offset), scale(base)).  Fewer digits move grid points (0.25 -> 0.2; start 0.5, dt 1: the clock sticks at 2.0)."""
    from ..util import deref
    n_sites = 0
    for pre in prefixes:
        for fi in idx.all_funcs(pre):
            for c in iter_calls(fi.node):
                if call_name(c) != "normalize" or fi.qual == "normalize":
                    continue
                a = dict(zip(("x", "base", "offset", "precision"), c.args))
                a.update({k.arg: k.value for k in c.keywords if k.arg})
                if not {"base", "offset", "precision"} <= set(a):
                    continue
                n_sites += 1
                p_ = src(deref(fi.node, a["precision"])).replace("fp.", "")

                def formula_ok(ptext: str) -> bool:
                    for conv in (lambda e: src(e), lambda e: src(deref(fi.node, e))):
                        b_, o_ = conv(a["base"]).replace("fp.", ""), conv(a["offset"]).replace("fp.", "")
                        try:
                            if nf(ptext) in (nf("max(scale(%s), scale(%s))" % (o_, b_)), nf("max(scale(%s), scale(%s))" % (b_, o_))):
                                return True
                        except SyntaxError:
                            pass
                    return False
                ok = formula_ok(p_)
                if not ok and isinstance(a["precision"], (ast.Name, ast.Call)):
                    # the precision may be kept in a validated memo (remembered for the start time and dt it was computed for): every way
                    # the local is bound must be the formula, directly or as what the memo stored for the current keys
                    from ..util import value_alternatives
                    cnode = idx.modules[fi.file].classes[fi.cls].node if fi.cls and fi.file in idx.modules and fi.cls in idx.modules[fi.file].classes else None
                    alts = value_alternatives(cnode, fi.node, a["precision"])
                    if alts and all(formula_ok(src(x).replace("fp.", "")) for x in alts):
                        ok = True
                b_, o_ = src(a["base"]), src(a["offset"])
                res.check(rule, "%s: normalize() keeps the digits of offset and base" % fi.qual, ok, fi.loc(c), fi.qual, src(c)[:110],
                          "%s normalises with precision %s, not max(scale(%s), scale(%s)): grid points that need the digits of the other quantity are "
                          "rounded away (start 0.5 with dt 1: 1.5 -> 2.0, the clock repeats a time; dt 0.25 with start 0: 0.25 -> 0.2)" % (fi.qual, p_, o_, b_),
                          key="%s/%s/normalize-precision" % (rule, fi.qual))
    return n_sites


def check_normalisation(idx: Index, res: Result) -> None:
    """timerange and Model.memoize normalise with the same (base=dt, offset=start, precision=max(scale(start), scale(dt)));
    the memo is probed, evaluated and filled under the normalised key.  Shared by C05 and C01."""
    res.floor("normalize() call sites", normalize_sites_rule(idx, res), 3)
    # ---- timerange: advance normalised, yields the loop variable ---------------------------------------------------
    tr0 = idx.func(FP, "timerange")
    from ..inline import load_vocab
    from ..util import deref
    _vocab = load_vocab()
    # the loop that produces the grid points: in timerange itself or in a helper of the module the rules do not know by name
    cands = [tr0] + [f for q, f in idx.module(FP).functions.items() if f.node.name not in _vocab]
    found_loops = []
    for cf in cands:
        for lp_ in [n for n in walk_no_nested(cf.node) if isinstance(n, (ast.While, ast.For))]:
            adv_ = [n for n in lp_.body if isinstance(n, ast.Assign) and isinstance(n.value, ast.Call) and call_name(n.value) == "normalize"
                    and isinstance(n.targets[0], ast.Name)]
            if len(adv_) == 1:
                found_loops.append((cf, lp_, adv_[0]))
    if len(found_loops) != 1:
        # a grid addressed by index (start + i*dt for i in range(n)): n must not be the *truncated* float quotient (stop-start)/dt -
        # 0.3/0.1 is 2.9999999999999996, so int() / // / floor lose the last grid point exactly when the span is a whole number of steps
        from ..util import deref as _d
        for cf in cands:
            for rg in [c for c in iter_calls(cf.node) if call_name(c) == "range" and c.args]:
                for a_ in rg.args:
                    e = a_
                    seen_ = 0
                    texts = []
                    stack_ = [e]
                    while stack_ and seen_ < 40:
                        x = stack_.pop()
                        seen_ += 1
                        if isinstance(x, ast.Name):
                            v_ = _d(cf.node, x)
                            if v_ is not x:
                                stack_.append(v_)
                            continue
                        trunc = (isinstance(x, ast.Call) and call_name(x) in ("int", "floor", "trunc") and x.args and
                                 any(isinstance(b_, ast.BinOp) and isinstance(b_.op, ast.Div) for b_ in ast.walk(x.args[0])) and
                                 not any(isinstance(c_, ast.Call) and call_name(c_) == "round" for c_ in ast.walk(x.args[0]))) or \
                                (isinstance(x, ast.BinOp) and isinstance(x.op, ast.FloorDiv))
                        if trunc:
                            res.find("NORM", "NORM/%s/grid-length-truncated" % cf.qual, cf.loc(x), cf.qual, src(x)[:80],
                                     "%s builds the grid from an index range whose length is %s: the float quotient is truncated, so whenever "
                                     "(stop-start)/dt falls just below a whole number (0.3/0.1, 0.7/0.1, 0.6/0.2) the last grid point - the stop "
                                     "time itself - is missing from the run" % (cf.qual, src(x)[:60]))
                            return
                        stack_.extend(ast.iter_child_nodes(x))
        raise AnalysisError("timerange: loop with a normalised advance not found")
    tr, lp, adv0 = found_loops[0]
    adv = [adv0]
    var = adv0.targets[0].id
    others = [n for n in ast.walk(lp) if isinstance(n, (ast.Assign, ast.AugAssign)) and n is not adv[0]
              and src(n.targets[0] if isinstance(n, ast.Assign) else n.target) == var]
    res.check("NORM", "timerange advances only through normalize()", not others, tr.loc(lp), tr.qual, norm_stmt(adv[0]),
              "the loop variable of timerange is also updated without normalize()", key="NORM/timerange/advance")
    ncall = adv[0].value

    def norm_args(call: ast.Call, names=("x", "base", "offset", "precision")) -> Dict[str, ast.AST]:
        out = dict(zip(names, call.args))
        out.update({k.arg: k.value for k in call.keywords if k.arg})
        return out
    ta = {k_: deref(tr.node, v_) for k_, v_ in norm_args(ncall).items()}       # a parameter computed into a local first
    # roles, not parameter positions: the loop variable starts at <offset> and advances by <base>
    inits = [n.value for n in walk_no_nested(tr.node) if isinstance(n, ast.Assign) and isinstance(n.targets[0], ast.Name) and n.targets[0].id == var and n is not adv0]
    start_txt = src(inits[0]) if len(inits) == 1 else None
    xs = ta.get("x")
    step_txt = None
    if isinstance(xs, ast.BinOp) and isinstance(xs.op, ast.Add):
        sides = [xs.left, xs.right]
        if any(isinstance(x_, ast.Name) and x_.id == var for x_ in sides):
            step_txt = src([x_ for x_ in sides if not (isinstance(x_, ast.Name) and x_.id == var)][0])
    ok = start_txt is not None and step_txt is not None and src(ta.get("base")) == step_txt and src(ta.get("offset")) == start_txt \
        and nf(ta.get("precision")) in (nf("max(scale(%s), scale(%s))" % (start_txt, step_txt)), nf("max(scale(%s), scale(%s))" % (step_txt, start_txt)))
    res.check("NORM", "timerange normalises i+dt to (base=dt, offset=start, precision=max(scale(start), scale(dt)))", ok, tr.loc(ncall),
              tr.qual, src(ncall), "timerange normalises with %s" % src(ncall), key="NORM/timerange/parameters")
    app = [c.args[0] for c in iter_calls(lp) if call_name(c) == "append" and c.args] + \
          [y.value for y in ast.walk(lp) if isinstance(y, ast.Yield) and y.value is not None]
    ok = len(app) == 1 and src(app[0]) == var
    res.check("NORM", "timerange yields the normalised loop variable", ok, tr.loc(lp), tr.qual, src(app[0]) if app else "",
              "timerange appends %s, not its normalised loop variable" % (src(app[0]) if app else "?"), key="NORM/timerange/yield")
    # normalize itself: round(base*round((x-offset)/base)+offset, precision)
    nm = idx.func(FP, "normalize")
    nps = params(nm.node)
    rets = [n for n in walk_no_nested(nm.node) if isinstance(n, ast.Return)]
    want = "1.0 * round({b} * round(({x} - {o}) / {b}) + {o}, {p})".format(x=nps[0], b=nps[1], o=nps[2], p=nps[3])
    ok = len(rets) == 1 and nf(rets[0].value) in (nf(want), nf(want.replace("1.0 * ", "")))
    res.check("NORM", "normalize = round(base*round((x-offset)/base)+offset, precision)", ok, nm.loc(), nm.qual,
              src(rets[0].value) if rets else "", "normalize() computes %s" % (src(rets[0].value) if rets else "?"), key="NORM/normalize/shape")

    # ---- memoize: sibling of timerange ----------------------------------------------------------------------------------
    memo = idx.func(MODEL, "Model.memoize")
    mp = params(memo.node)
    ncalls = [c for c in iter_calls(memo.node) if call_name(c) == "normalize"]
    if len(ncalls) != 1:
        raise AnalysisError("Model.memoize: normalize() call not found")
    ma = norm_args(ncalls[0])
    _massigns = single_assignments(memo.node)
    for _k, _v in list(ma.items()):      # a parameter computed into a local first
        if isinstance(_v, ast.Name) and len(_massigns.get(_v.id, [])) == 1:
            ma[_k] = _massigns[_v.id][0]

    def strip_fp(e):
        return src(e).replace("fp.", "")
    def _prec_ok(e) -> bool:
        try:
            return nf(strip_fp(e)) in (nf("max(scale(self.starttime), scale(self.dt))"), nf("max(scale(self.dt), scale(self.starttime))"))
        except SyntaxError:
            return False
    prec_ok = _prec_ok(ma.get("precision"))
    if not prec_ok and isinstance(ma.get("precision"), ast.Name):
        # kept in a validated memo: every way the local is bound is the formula (see util.value_alternatives)
        from ..util import value_alternatives as _valts
        _alts = _valts(idx.cls(MODEL, "Model").node, memo.node, ma["precision"])
        prec_ok = bool(_alts) and all(_prec_ok(x) for x in _alts)
    ok = src(ma["x"]) == mp[2] and strip_fp(ma.get("base")) == "self.dt" and strip_fp(ma.get("offset")) == "self.starttime" and prec_ok
    res.check("NORM", "memoize normalises its argument like timerange (dt, starttime, max scale)", ok, memo.loc(ncalls[0]), memo.qual,
              src(ncalls[0]), "Model.memoize normalises with %s, timerange with (dt, start, max(scale(start), scale(dt)))" % src(ncalls[0]),
              key="NORM/memoize/parameters")
    assigns = single_assignments(memo.node)
    K = [k for k, v in assigns.items() if any(x is ncalls[0] for x in v)]
    if len(K) != 1:
        raise AnalysisError("Model.memoize: key variable not found")
    K = K[0]
    uses = 0
    from ..util import is_row, row_aliases
    rows = row_aliases(memo.node, "self.memo")
    for n in walk_no_nested(memo.node):
        if isinstance(n, ast.Subscript) and is_row(rows, n.value, "self.memo"):
            uses += 1
            res.check("KEY", "memo subscript %s keyed by the normalised time" % src(n), src(n.slice) == K, memo.loc(n), memo.qual, src(n),
                      "the memo is indexed with %s instead of the normalised %s" % (src(n.slice), K), key="KEY/memoize/%s" % src(n.slice))
        if isinstance(n, ast.Compare) and isinstance(n.ops[0], (ast.In, ast.NotIn)) and is_row(rows, n.comparators[0], "self.memo"):
            uses += 1
            res.check("KEY", "memo probe keyed by the normalised time", src(n.left) == K, memo.loc(n), memo.qual, src(n),
                      "the memo is probed with %s" % src(n.left), key="KEY/memoize/probe")
        if isinstance(n, ast.Call) and call_name(n) == "get" and n.args and is_row(rows, n.func.value, "self.memo"):
            uses += 1
            res.check("KEY", "memo probe keyed by the normalised time", src(n.args[0]) == K, memo.loc(n), memo.qual, src(n),
                      "the memo is probed with %s" % src(n.args[0]), key="KEY/memoize/probe")
        if isinstance(n, ast.Call) and isinstance(n.func, ast.Subscript) and "equations" in src(n.func.value):
            uses += 1
            res.check("KEY", "equation evaluated at the normalised time", [src(a) for a in n.args] == [K], memo.loc(n), memo.qual, src(n),
                      "the equation is evaluated at %s" % [src(a) for a in n.args], key="KEY/memoize/evaluate")
    res.floor("uses of the memo key in Model.memoize", uses, 3)



def check_c05(idx: Index, tier: str, res: Result) -> None:
    res.explanation = ("Kind analysis over the SD engine: every time-advance expression (time-kinded +/- dt-kinded) in the consulted "
                       "modules is discovered and followed to its consumer; it must pass through normalize() before it becomes the "
                       "bound of an exclusive timerange, a dictionary key, the stored session clock or a comparison operand. "
                       "timerange and Model.memoize are checked to normalise with the same base/offset/precision (siblings); the "
                       "memo is probed, evaluated and filled under the normalised key; result tables are keyed by the range variable.")
    res.rules = ["RAW: raw time sums vs sinks", "NORM: normalize() parameters agree between timerange and memoize",
                 "KEY: tables keyed by normalised times", "TEMPLATE: time comparisons inside generated text",
                 "SESSION: the session's start/stop/dt and first clock value are the selected scenarios' (the clock is snapped relative to them)"]
    res.not_decided = ["that normalize()/precision_and_scale round correctly for every (start, dt, i) - float arithmetic on runtime values",
                       "labels of agent-based runs (round + step*dt in the scheduler is outside this property's anchors)"]
    # the stepwise session runs on the scenarios' own grid: the clock is normalised relative to the session's start time and dt
    from .channels import session_grid_rules
    session_grid_rules(idx, res, "SESSION")
    nadv = 0
    for rel in CONSULTED:
        if rel not in idx.modules:
            continue
        for fi in idx.modules[rel].functions.values():
            if "." in fi.qual.replace((fi.cls or "") + ".", "", 1) and not fi.qual.endswith(".setter"):
                pass
            par = _parents(fi.node)
            _DERIVED_TIME.clear()
            for _ in range(2):
                for a_ in walk_no_nested(fi.node):
                    if isinstance(a_, ast.Assign) and len(a_.targets) == 1 and isinstance(a_.targets[0], ast.Name) and _time_like(a_.value):
                        _DERIVED_TIME.add(a_.targets[0].id)
            for n in walk_no_nested(fi.node):
                if isinstance(n, ast.BinOp) and isinstance(n.op, (ast.Add, ast.Sub)) and (
                        (_time_like(n.left) and _dt_like(n.right)) or (_dt_like(n.left) and _time_like(n.right))):
                    nadv += 1
                    kind, cons = _classify(n, par)
                    if kind == "assign" and isinstance(cons.targets[0], ast.Name):
                        # a named intermediate: classify what the local flows into (worst use wins)
                        uses = [u for u in walk_no_nested(fi.node) if isinstance(u, ast.Name) and u.id == cons.targets[0].id and isinstance(u.ctx, ast.Load)]
                        kinds = [_classify(u, par) for u in uses]
                        bad = [kc for kc in kinds if kc[0] not in ("normalized", "log")]
                        if kinds:
                            kind, cons = bad[0] if bad else kinds[0]
                    label = "%s: %s" % (fi.qual, src(n))
                    if kind == "normalized":
                        res.ob("RAW", label + " -> normalize()", True)
                    elif kind == "log":
                        res.ob("RAW", label + " -> log text only", True, nontrivial=False)
                    elif kind == "range-bound":
                        # exclusive range with a raw bound: the bound may exceed the next grid point by an ulp
                        excl = not any(k.arg == "exclusive" and isinstance(k.value, ast.Constant) and k.value.value is False
                                       for k in cons.keywords) and len(cons.args) < 4
                        res.check("RAW", label + " -> timerange bound", not excl, fi.loc(n), fi.qual, src(cons)[:100],
                                  "the exclusive upper bound of the range is the raw float sum %s: when the sum lands an ulp above the "
                                  "next grid point (0.2+0.1 = 0.30000000000000004) the range yields one entry beyond the stop time"
                                  % src(n), key="RAW/%s/range-bound=%s" % (fi.qual, src(n)))
                    elif kind == "clock":
                        res.check("RAW", label + " -> session clock", False, fi.loc(n), fi.qual, norm_stmt(cons),
                                  "the session clock is advanced by a bare float addition (%s): labels such as 0.30000000000000004 "
                                  "and 0.7999999999999999 appear in the step results and drift accumulates" % src(n),
                                  key="RAW/%s/session-clock" % fi.qual)
                    elif kind == "key":
                        res.check("RAW", label + " -> dictionary key", False, fi.loc(n), fi.qual, src(cons)[:100],
                                  "a raw float sum is used as a dictionary key", key="RAW/%s/key=%s" % (fi.qual, src(n)))
                    elif kind == "compare":
                        res.check("RAW", label + " -> comparison", False, fi.loc(n), fi.qual, src(cons)[:100],
                                  "a raw float sum is compared with a grid time", key="RAW/%s/compare=%s" % (fi.qual, src(n)))
                    else:
                        raise AnalysisError("time arithmetic %s in %s flows into %s, which the kind analysis does not classify"
                                            % (src(n), fi.qual, type(cons).__name__))
    res.floor("time-advance expressions in the SD engine", nadv, 2)
    # every range over the grid: the stop argument is a plain time value (inclusive range) or, for an exclusive
    # range, not a raw sum (reported above)
    nrange = 0
    for rel in CONSULTED:
        if rel not in idx.modules:
            continue
        for fi in idx.modules[rel].functions.values():
            if fi.qual == "timerange":
                continue
            for c in iter_calls(fi.node, into_nested=False):
                if call_name(c) == "timerange" and len(c.args) >= 3:
                    nrange += 1
                    stop = c.args[1]
                    incl = any(k.arg == "exclusive" and isinstance(k.value, ast.Constant) and k.value.value is False for k in c.keywords) \
                        or (len(c.args) >= 4 and isinstance(c.args[3], ast.Constant) and c.args[3].value is False)
                    plain = _time_like(stop)
                    res.check("RAW", "%s: %s ends at its stop time" % (fi.qual, src(c)[:70]), incl and plain, fi.loc(c), fi.qual, src(c)[:110],
                              "the range %s is %s with stop argument '%s': a run must end exactly at its stop time (inclusive range "
                              "over a plain time value)" % (src(c)[:80], "inclusive" if incl else "exclusive", src(stop)),
                              key="RAW/%s/range=%s" % (fi.qual, src(stop)))
    res.floor("timerange call sites in the SD engine", nrange, 5)

    check_normalisation(idx, res)

    # ---- the batch sweep and the step: tables keyed by the range variable -----------------------------------------------------
    from .sddsl_templates import sweep_loop, _sweep
    _sweep(idx, res)                 # the batch run sweeps the model's own (start, stop, dt)
    sim, _lp, _rng, v, st = sweep_loop(idx)
    res.check("KEY", "result rows keyed by the range variable", len(st) >= 1 and all(src(x.targets[0].slice) == v for x in st), sim.loc(), sim.qual,
              norm_stmt(st[0]) if st else "", "result rows are keyed by %s" % (src(st[0].targets[0].slice) if st else "?"), key="KEY/__simulate/rows")
    rs = idx.func(BPTK, "bptk.run_step")
    for n in walk_no_nested(rs.node):
        if isinstance(n, ast.Assign) and isinstance(n.targets[0], ast.Subscript) and isinstance(n.targets[0].value, ast.Subscript) \
                and const_str(n.targets[0].value.slice) in ("settings_log", "results_log"):
            res.check("KEY", "%s keyed by the step being run" % const_str(n.targets[0].value.slice), src(n.targets[0].slice) == "step", rs.loc(n),
                      rs.qual, norm_stmt(n)[:90], "the session log is keyed by %s" % src(n.targets[0].slice),
                      key="KEY/run_step/%s" % const_str(n.targets[0].value.slice))
    runner = idx.func(RUNNER, "SdRunner.run_scenario_step")
    sc = [c for c in iter_calls(runner.node) if call_name(c) == "start"]
    kw = {k.arg: src(k.value) for c in sc for k in c.keywords}
    res.check("KEY", "a step simulates exactly [step, step]", kw.get("start") == "step" and kw.get("until") == "step", runner.loc(), runner.qual,
              src(sc[0])[:100] if sc else "", "a session step simulates [%s, %s]" % (kw.get("start"), kw.get("until")), key="KEY/run_scenario_step/range")

    # ---- comparisons inside generated text: Delay --------------------------------------------------------------------------------
    from .sddsl_templates import dsl_renderers
    renderers, _ = dsl_renderers(idx)
    for r in renderers:
        if r.cls != "Delay":
            continue
        names = role_names(r.parts)
        txt = render(r.parts, "TIME__", names)
        tree = ast.parse(txt.strip(), mode="eval").body
        if not isinstance(tree, ast.IfExp):
            raise AnalysisError("Delay template is not a conditional")
        t = tree.test
        raw = [n for n in ast.walk(t) if isinstance(n, ast.BinOp) and isinstance(n.op, (ast.Add, ast.Sub))
               and any(isinstance(x, ast.Name) and x.id == "TIME__" for x in ast.walk(n))]
        wrapped = [c for c in ast.walk(t) if isinstance(c, ast.Call) and call_name(c) in ("normalize", "round")]
        res.check("TEMPLATE", "Delay compares a normalised shifted time with the start time", not raw or bool(wrapped), r.fi.loc(), r.fi.qual,
                  src(t)[:100], "the generated delay test compares the raw float difference '%s' with the start time: for dt=0.1 the "
                  "difference 0.3-0.1 = 0.19999999999999998 fails '>= 0.2' and the delay returns its initial value one step too long"
                  % src(raw[0]) if raw else "", key="TEMPLATE/Delay.term/raw-comparison")
        break
    # XMILE generated class (shared with C04)
    try:
        from .xmile import generated_time_checks
    except ImportError:
        generated_time_checks = None
    if generated_time_checks is not None:
        generated_time_checks(idx, res, "TEMPLATE")
